"""C16 - oneshot()/as_dict() change speed, never answers; safe across threads.

Every read of the process's stat/status/smaps is stamped with a unique, increasing version number, so a
returned value identifies the read that produced it.  Part 1: single-thread event sequences against a
cache model + access counts.  Part 2: two threads under the deterministic scheduler (vlib.sched), all
<=2-preemption schedules exhaustively + seeded 3/4-preemption samples.
"""
import itertools
import re

import copy
import sys
import threading
import time

from vlib import harness

ID = "C16"
LEVEL = "exploration"
ENGINE = "vkernel+sched"
TECHNIQUE = "runtime monitor: version-stamped reads + cache reference model; deterministic bounded-preemption schedule enumeration (sys.settrace) for the thread-safety clause + free-running threads (1 us switch interval) under the same oracle"
RULE = ("part 1: random event sequences (enter, nested enter, exit, exit-by-exception, method call, vanish, deny, as_dict with "
        "valid/invalid attrs) on one object checked against a cache model (version of every returned value, opens of "
        "stat/status/smaps per block, as_dict key/ad_value/validation policy). part 2: thread A runs 1-2 oneshot blocks (or "
        "as_dict), thread B plain getters / as_dict / its own block on the same object; yield points = every line of "
        "memoize_when_activated's wrapper, cache_activate/deactivate, oneshot(), as_dict(), oneshot_enter/exit; all schedules "
        "with <=2 pre-emptions enumerated, 3-4 pre-emption schedules sampled. non-trivial = sequence containing a block with "
        ">=2 calls on one source, or a schedule whose threads interleave inside the wrapper / across a block boundary "
        "(>=2 context switches); distinct by event-sequence hash resp. (scenario, interleaving hash). part 3: 2-3 free-running "
        "threads (switch interval 1 us, 300 operations each) - one using blocks, the others plain calls / as_dict / blocks - "
        "pre-empted anywhere, not only at the yield points of part 2; block-entry windows and call intervals are taken from a "
        "monotonic clock outside the calls; non-trivial = a run in which blocks overlapped calls of another thread")
ASSUMPTIONS = [
    "a value returned inside a block may be as old as the block's entry; a plain call from another thread that overlaps a block of the same object may legitimately see that block's cache (the cache is per object by design)",
    "Process._lock and nothing else is replaced by a cooperative wrapper so that a blocked thread hands control back to the scheduler",
    "the 'read at most once per block' clause is asserted for methods that do not perform an identity re-check (ppid/parent/children construct a second Process object that reads stat on its own)",
    "pre-emption happens only at source-line boundaries of the listed functions (shared-state accesses)",
]
REQUIRED_COUNTERS = ["inblock_values_checked", "schedules_run", "distinct_interleavings"]
SHARD_TIMEOUT = 2400

STAT_M = ["cpu_times", "status", "cpu_num", "name", "terminal"]
STATUS_M = ["uids", "gids", "num_threads", "num_ctx_switches"]
SMAPS_M = ["memory_maps", "memory_full_info"]
OTHER_M = ["cmdline", "io_counters", "memory_info", "nice", "num_fds"]
SOURCE = {m: "stat" for m in STAT_M}
SOURCE.update({m: "status" for m in STATUS_M})
SOURCE.update({m: "smaps" for m in SMAPS_M})
SOURCE["ppid"] = "stat"
FRONT_MEMOIZED = {"cpu_times", "uids", "ppid", "memory_info"}
SOURCE["username"] = "status"
SOURCE["cpu_percent"] = "stat"
SOURCE["cpu_percent_blocking"] = "stat"
SOURCE["repr"] = "stat"                        # str()/repr() of the object (logging, f-strings): name() + status()        # cpu_percent(interval>0): two samples around a sleep, same cache rules

_env = {}


def setup():
    if not _env:
        from vlib import psu, sched, vkernel
        from vlib.proctable import ProcTable
        ps = psu.load()
        ps.PROCFS_PATH = "/vproc"
        import psutil._pslinux as pl
        codes = {
            ps.Process.ppid.__code__,                      # memoize_when_activated.wrapper (shared code object)
            ps.Process.ppid.cache_activate.__code__,
            ps.Process.ppid.cache_deactivate.__code__,
            ps.Process.oneshot.__wrapped__.__code__,
            ps.Process.as_dict.__code__,
            pl.Process.oneshot_enter.__code__,
            pl.Process.oneshot_exit.__code__,
        }
        _env.update(ps=ps, sched=sched, vkernel=vkernel, ProcTable=ProcTable, codes=codes, pl=pl)
    return _env


class Stamped:
    """World with one process (pid 50) whose stat/status/smaps reads are version-stamped."""

    def __init__(self, rollup=False):
        env = setup()
        self.ps = env["ps"]
        self.rollup = rollup
        self.counter = 0
        self._tick_lock = threading.Lock()
        t = env["ProcTable"]()
        t.spawn(1, 1, ppid=0, comm=b"init")
        p = t.spawn(50, 500, ppid=1, comm=b"stamped")
        p.smaps_rollup = None
        p.cmdline = b"/bin/stamped\0"
        p.raw_stat = self._stat
        p.raw_status = self._status
        p.overrides["smaps"] = lambda: env["vkernel"].F(self._smaps)
        if rollup:
            # a kernel with /proc/PID/smaps_rollup: memory_full_info() has a source of its own, stamped like the others
            p.overrides["smaps_rollup"] = lambda: env["vkernel"].F(self._rollup)
        self.t, self.p = t, p
        vk = env["vkernel"].VK()
        vk.table = t
        vk.mount("/vproc", t)
        t.rootfiles["meminfo"] = b"MemTotal: 1000000 kB\nMemFree: 1 kB\nMemAvailable: 1 kB\nBuffers: 0 kB\nCached: 0 kB\nShmem: 0 kB\nActive: 0 kB\nInactive: 0 kB\n"
        self.vk = vk

    def tickv(self):
        # the monitor's own state: atomic with respect to free-running threads (no yield point of the scheduler lies inside)
        with self._tick_lock:
            self.counter += 1
            return self.counter

    def _stat(self, p):
        v = self.tickv()
        st = "Z" if p.zombie else "S"
        return (b"50 (stamped) %s 1 50 50 0 -1 4194304 0 0 0 0 %d 0 0 0 20 0 1 0 500 0 0 18446744073709551615 "
                b"0 0 0 0 0 0 0 0 0 0 0 0 17 %d 0 0 0 0 0 0 0 0 0 0 0 0 0\n" % (st.encode(), v, v % 4096))

    def _status(self, p):
        v = self.tickv()
        return (b"Name:\tstamped\nState:\tS (sleeping)\nTgid:\t50\nPid:\t50\nPPid:\t1\nUid:\t%d\t%d\t%d\t%d\n"
                b"Gid:\t%d\t%d\t%d\t%d\nThreads:\t%d\nCpus_allowed_list:\t0-3\nvoluntary_ctxt_switches:\t%d\n"
                b"nonvoluntary_ctxt_switches:\t%d\n" % ((v,) * 11))

    def _smaps(self):
        v = self.tickv()
        return (b"55c69524c000-55c69524e000 r--p 00000000 fe:00 320173                     /usr/bin/stamped\n"
                b"Size:                  8 kB\nRss:                   %d kB\nPss:                   %d kB\n"
                b"Shared_Clean:          0 kB\nShared_Dirty:          0 kB\nPrivate_Clean:         %d kB\n"
                b"Private_Dirty:         0 kB\nReferenced:            0 kB\nAnonymous:             0 kB\n"
                b"Swap:                  %d kB\nVmFlags: rd mr\n" % (v, v, v, v))


def _rollup(self):
    v = self.tickv()
    return (b"55c69524c000-7ffd1b1fe000 ---p 00000000 00:00 0                          [rollup]\n"
            b"Rss:                   %d kB\nPss:                   %d kB\nPss_Anon:              0 kB\n"
            b"Shared_Clean:          0 kB\nShared_Dirty:          0 kB\nPrivate_Clean:         %d kB\n"
            b"Private_Dirty:         0 kB\nReferenced:            0 kB\nAnonymous:             0 kB\n"
            b"Swap:                  %d kB\nSwapPss:               0 kB\n" % (v, v, v + ROLLUP_MARK, v))


ROLLUP_MARK = 10**6         # uss of a roll-up reading = version + this: tells which of the two files an answer came from


def rollup_answer_problem(val, c0, first_in_block):
    """memory_full_info() on a kernel with smaps_rollup: the roll-up is its source (that is what it reads outside a block) and
    the library does not keep it for the block - so the answer is a roll-up reading taken during this call, or (the statement's
    wording) the block's first one; never figures summed up from another file."""
    v = val.pss // 1024
    if val.uss // 1024 - v != ROLLUP_MARK:
        return "value_from_another_source:memory_full_info", f"uss={val.uss} pss={val.pss}: not a smaps_rollup reading"
    if not (v > c0 or (first_in_block is not None and v == first_in_block)):
        return "stale_rollup_value:memory_full_info", f"v{v}, counter before the call v{c0}, first roll-up reading of the block {first_in_block}"
    return None


Stamped._rollup = _rollup


def version_of(method, val):
    """Recover the read version from a returned value."""
    if method == "cpu_times":
        return round(val.user * 100)
    if method == "cpu_num":
        return None  # v % 4096: ambiguous, skip exact
    if method in ("uids", "gids"):
        return val.real
    if method == "num_threads":
        return val
    if method == "num_ctx_switches":
        return val.voluntary
    if method == "memory_maps":
        return val[0].rss // 1024 if val else None
    if method == "memory_full_info":
        return val.pss // 1024
    return None


# --------------------------------------------------------------------------------------------------
# part 1: single-thread event sequences
# --------------------------------------------------------------------------------------------------

def gen_events(rng):
    ev = []
    depth = 0
    n = rng.randrange(4, 22)
    for _ in range(n):
        r = rng.random()
        if r < 0.15 and depth < 3:
            ev.append(["enter"])
            depth += 1
        elif r < 0.27 and depth > 0:
            ev.append(["exit_exc" if rng.random() < 0.3 else "exit"])
            depth -= 1
        elif r < 0.80:
            ev.append(["call", rng.choice(STAT_M[:2] * 3 + STATUS_M * 2 + SMAPS_M + OTHER_M + ["ppid", "cpu_percent", "username", "memory_percent", "cpu_percent_blocking", "repr"])])
        elif r < 0.84:
            ev.append(["vanish"])
        elif r < 0.88:
            ev.append(["deny"])
        elif r < 0.95:
            k = rng.random()
            if k < 0.6:
                attrs = rng.sample(["name", "cpu_times", "uids", "num_threads", "ppid", "pid", "cmdline", "io_counters",
                                    "memory_full_info", "status", "exe", "gids", "username", "nice"], rng.randrange(1, 6))
            elif k < 0.8:
                attrs = [rng.choice(["name", "uids"]), rng.choice(["bogus", "kill", "wait", "oneshot", "", "children", "_proc"])]
                if rng.random() < 0.4:
                    # several unknown "names" at once, not all of them strings (nothing says they can be ordered)
                    attrs += rng.sample([None, 1, 2.5, True, "nmae", "pidd", 0], rng.randrange(1, 4))
            else:
                attrs = rng.choice([5, "name", 3.5, "NONLIST", "", 0, 0.0, False, "EMPTYDICT", "EMPTYRANGE", "EMPTYBYTES"])
            ev.append(["as_dict", attrs, rng.choice([None, "AD", -1])])
        else:
            ev.append(["zombify"])
    if any(e[0] == "deny" for e in ev):
        for e in ev:
            if e[0] == "call" and e[1] == "ppid":
                e[1] = "num_threads"
            if e[0] == "as_dict" and isinstance(e[1], list):
                e[1] = [a for a in e[1] if a != "ppid"] or ["name"]
    while depth > 0:
        ev.append(["exit"])
        depth -= 1
    ev.append(["call", "cpu_times"])
    ev.append(["call", "uids"])
    return ev


def run_events(events, acc):
    env = setup()
    ps = env["ps"]
    with_rollup = harness.chash(events)[-1] in "01234567"
    w = Stamped(rollup=with_rollup)
    if with_rollup:
        acc.count("event_sequences_on_a_kernel_with_smaps_rollup")
    viols = []
    nontrivial = False
    ctx = f"events={events}" + (" [smaps_rollup present]" if with_rollup else "")
    cms = []
    cache = {}          # source -> version first read in the outermost block
    opens_at_enter = None
    safe_only = True    # only methods without identity re-check called in this block
    gone = False
    zombie = False
    pending_deny = [False]
    block_faulted = [False]
    calls_in_block = {}
    handed_out = {}

    def rule(kind, path):
        if pending_deny[0] and path.startswith("/vproc/50/") and kind in ("open", "listdir", "readlink"):
            pending_deny[0] = False
            return PermissionError(13, "injected", path)
        return None
    w.vk.rules.append(rule)

    def count_opens():
        c = {"stat": 0, "status": 0, "smaps": 0}
        for kind, path in w.vk.log:
            if kind == "open":
                for s in c:
                    if path == f"/vproc/50/{s}":
                        c[s] += 1
        return c

    with w.vk:
        ps.virtual_memory()
        ps.boot_time()
        pr = ps.Process(50)
        for ev in events:
            k = ev[0]
            if k == "enter":
                cm = pr.oneshot()
                cm.__enter__()
                cms.append(cm)
                if len(cms) == 1:
                    cache = {}
                    calls_in_block = {}
                    opens_at_enter = count_opens()
                    safe_only = True
                    block_faulted[0] = pending_deny[0]
            elif k in ("exit", "exit_exc"):
                if not cms:
                    continue
                cm = cms.pop()
                try:
                    if k == "exit":
                        cm.__exit__(None, None, None)
                    else:
                        try:
                            raise KeyError("user exception inside the block")
                        except KeyError as e:
                            r = cm.__exit__(KeyError, e, e.__traceback__)
                            if r:
                                viols.append(("oneshot_swallows_exception", ctx))
                except KeyError:
                    pass
                if not cms:
                    if safe_only and not gone and not zombie and not block_faulted[0]:
                        now = count_opens()
                        for s in now:
                            d = now[s] - opens_at_enter[s]
                            acc.count("block_open_counts_checked")
                            if d > 1:
                                viols.append((f"source_read_{d}_times_in_block:{s}", ctx))
                    cache = {}
            elif k == "vanish":
                block_faulted[0] = True
                if not gone:
                    w.t.remove(50)
                    gone = True
            elif k == "zombify":
                block_faulted[0] = True
                if not gone and not zombie:
                    w.t.exit(50, 0)
                    zombie = True
            elif k == "deny":
                pending_deny[0] = True
                block_faulted[0] = True
            elif k == "call":
                m = ev[1]
                c0 = w.counter
                denied_before = pending_deny[0]
                try:
                    val = (pr.cpu_percent(interval=0.0005) if m == "cpu_percent_blocking" else
                           (repr(pr) if w.counter % 2 else str(pr)) if m == "repr" else getattr(pr, m)())
                    res = ("ok", val)
                    if isinstance(val, (list, dict)):
                        # the caller owns what it was handed: scribbling on it must not change any later answer
                        snap = copy.deepcopy(val)
                        if m == "cmdline" and snap != ["/bin/stamped"]:
                            mech = "cmdline_wrong"
                            if "cmdline" in handed_out:
                                mech = "answer_changed_after_caller_modified_earlier_result:cmdline"
                            viols.append((mech, ctx + f" cmdline() -> {snap!r}"))
                        handed_out[m] = snap
                        acc.count("mutable_results_scribbled")
                        val.clear()
                        if isinstance(val, list):
                            val.append("scribble")
                        val = snap
                        res = ("ok", snap)
                except ps.ZombieProcess:
                    res = ("ZombieProcess", None)
                except ps.NoSuchProcess:
                    res = ("NoSuchProcess", None)
                except ps.AccessDenied:
                    res = ("AccessDenied", None)
                except Exception as e:  # noqa: BLE001
                    res = ("exc:" + type(e).__name__, str(e)[:150])
                denied_now = denied_before and not pending_deny[0]
                if m in ("ppid", "cpu_percent", "username", "memory_percent"):
                    if m == "ppid":
                        safe_only = False
                if res[0].startswith("exc:"):
                    viols.append((f"call_exception:{m}:{res[0]}", ctx + f" -> {res}"))
                    continue
                if res[0] == "AccessDenied" and not denied_now:
                    viols.append((f"AccessDenied_without_deny:{m}", ctx))
                if res[0] == "NoSuchProcess" and not gone:
                    viols.append((f"NoSuchProcess_for_live:{m}", ctx))
                if res[0] == "ZombieProcess" and not zombie:
                    viols.append((f"ZombieProcess_for_live:{m}", ctx))
                if res[0] != "ok":
                    continue
                src = SOURCE.get(m)
                if with_rollup and m == "memory_full_info":
                    acc.count("rollup_answers_checked")
                    pb = rollup_answer_problem(res[1], c0, cache.get("smaps_rollup") if cms else None)
                    if pb:
                        viols.append((pb[0], ctx + " " + pb[1]))
                    elif cms:
                        cache.setdefault("smaps_rollup", res[1].pss // 1024)
                    continue
                if src is None:
                    continue
                v = version_of(m, res[1])
                c1 = w.counter
                if cms:
                    calls_in_block[src] = calls_in_block.get(src, 0) + 1
                    if calls_in_block[src] >= 2:
                        nontrivial = True
                    if src in cache:
                        lo, hi = cache[src]
                        if v is not None:
                            acc.count("inblock_values_checked")
                            if not lo <= v <= hi:
                                viols.append((f"inblock_value_not_first_read:{m}", ctx + f" got v{v} first-read in v{lo}..v{hi}"))
                            else:
                                cache[src] = (v, v)
                    else:
                        if v is not None:
                            acc.count("inblock_values_checked")
                            if not v > c0:
                                viols.append((f"inblock_first_value_stale:{m}", ctx + f" got v{v} counter-before v{c0}"))
                            cache[src] = (v, v)
                        elif c1 > c0:
                            cache[src] = (c0 + 1, c1)
                elif v is not None:
                    acc.count("outside_values_checked")
                    if not v > c0:
                        viols.append((f"stale_value_outside_block:{m}", ctx + f" got v{v} but counter before the call was v{c0}"))
                if gone and not (cms and src in cache) and v is not None:
                    viols.append((f"value_after_gone:{m}", ctx))
            elif k == "as_dict":
                attrs, adv = ev[1], ev[2]
                n0 = len(w.vk.log)
                deny_armed = pending_deny[0]
                c0 = w.counter
                if isinstance(attrs, list) and "ppid" in attrs:
                    safe_only = False
                try:
                    special = {"NONLIST": {"name": 1}.keys(), "EMPTYDICT": {}, "EMPTYRANGE": range(0), "EMPTYBYTES": b""}
                    arg = special.get(attrs, attrs) if isinstance(attrs, str) else attrs
                    if isinstance(attrs, list):
                        # the documented collection types; whichever it is, it stays the caller's (a program passes the same
                        # set again and again)
                        arg = (list, tuple, set, frozenset)[int(harness.chash([attrs, len(events)])[-1], 16) % 4](attrs)
                        arg_before = copy.copy(arg)
                    d = pr.as_dict(attrs=arg, ad_value=adv)
                    if isinstance(attrs, list):
                        acc.count("as_dict_attr_collections_compared_after_the_call")
                        if arg != arg_before or type(arg) is not type(arg_before):
                            viols.append(("as_dict_modified_the_callers_attrs", ctx + f" attrs={arg_before!r} -> {arg!r}"))
                    res = ("ok", d)
                except ps.NoSuchProcess:
                    res = ("NoSuchProcess", None)
                except ps.Error as e:
                    res = ("psutil:" + type(e).__name__, None)
                except Exception as e:  # noqa: BLE001
                    res = ("exc:" + type(e).__name__, str(e)[:100])
                naccess = len(w.vk.log) - n0
                deny_fired = deny_armed and not pending_deny[0]
                acc.count("as_dict_calls_checked")
                valid_names = {x for x in dir(ps.Process) if not x.startswith("_")} - {
                    "send_signal", "suspend", "resume", "terminate", "kill", "wait", "is_running", "as_dict", "parent",
                    "parents", "children", "rlimit", "connections", "oneshot"}
                if not isinstance(attrs, list):
                    if res[0] != "exc:TypeError":
                        viols.append(("as_dict_noncollection_not_TypeError", ctx + f" attrs={attrs!r} -> {res[0]}"))
                    elif naccess:
                        viols.append(("as_dict_validation_after_os_access", ctx))
                    continue
                bad = [a for a in attrs if a not in valid_names]
                if bad:
                    if res[0] != "exc:ValueError":
                        viols.append(("as_dict_unknown_name_not_ValueError", ctx + f" attrs={attrs!r} -> {res[0]}"))
                    elif naccess:
                        viols.append(("as_dict_validation_after_os_access", ctx))
                    continue
                if res[0] == "NoSuchProcess":
                    if not gone:
                        viols.append(("as_dict_NSP_for_live", ctx))
                    continue
                if res[0] != "ok":
                    viols.append((f"as_dict_raised:{res[0]}", ctx + f" -> {res}"))
                    continue
                d = res[1]
                if set(d) != set(attrs):
                    viols.append(("as_dict_keys_differ", ctx + f" got={sorted(d)} want={sorted(attrs)}"))
                if gone and not cms and any(a not in ("pid", "exe", "create_time") for a in attrs):
                    # every OS-touching attr must have propagated NSP
                    if naccess > 0 and not deny_fired:
                        viols.append(("as_dict_swallowed_NSP", ctx + f" got={d}"))
                if zombie and "cmdline" in d and not gone and d["cmdline"] != adv and not pending_deny[0]:
                    viols.append(("as_dict_zombie_cmdline_not_ad_value", ctx + f" got={d['cmdline']!r} ad_value={adv!r}"))
                # versions inside as_dict obey the block rule
                c1 = w.counter
                for a in attrs:
                    src = SOURCE.get(a)
                    if with_rollup and a == "memory_full_info":
                        if a in d and d[a] != adv:
                            acc.count("rollup_answers_checked")
                            pb = rollup_answer_problem(d[a], c0, cache.get("smaps_rollup") if cms else None)
                            if pb:
                                viols.append(("as_dict_" + pb[0], ctx + " " + pb[1]))
                            elif cms:
                                cache.setdefault("smaps_rollup", d[a].pss // 1024)
                        continue
                    if src is None or a not in d or not cms:
                        continue
                    v = version_of(a, d[a]) if d[a] != adv else None
                    if src in cache:
                        lo, hi = cache[src]
                        if v is not None:
                            if not lo <= v <= hi:
                                viols.append((f"as_dict_inblock_value_not_first_read:{a}", ctx + f" got v{v} want v{lo}..v{hi}"))
                            else:
                                cache[src] = (v, v)
                    elif v is not None:
                        cache[src] = (v, v)
                    elif c1 > c0:
                        # the source may or may not have been read (e.g. the attr itself was denied): lower bound only
                        cache[src] = (c0 + 1, c1 if not deny_fired else 10**12)
        while cms:
            cms.pop().__exit__(None, None, None)
    acc.case(dict(events=events), nontrivial, viols)


# --------------------------------------------------------------------------------------------------
# part 2: two threads under the scheduler
# --------------------------------------------------------------------------------------------------

SCENARIOS = {
    # name: (A program, B program)
    "two_blocks_vs_plain": ("blocks2", "plain3"),
    "one_block_vs_plain": ("blocks1", "plain3"),
    "block_vs_asdict": ("blocks1", "asdict"),
    "asdict_vs_plain": ("asdictA", "plain3"),
    "block_vs_block": ("blocks1", "blocksB"),
    "two_blocks_vs_plain_status": ("blocks2", "plain_status"),
}


def run_schedule(scn, preempt, first):
    env = setup()
    ps, S = env["ps"], env["sched"]
    w = Stamped()
    progA, progB = SCENARIOS[scn]
    cur = [None]
    log = dict(A=[], B=[])

    with w.vk:
        pr = ps.Process(50)
        pr._lock = S.CoopLock(pr._lock, lambda: cur[0])
        sch = S.Sched(env["codes"], preempt=preempt, first=first)
        cur[0] = sch

        def block(tag, methods):
            e = w.counter
            s0 = sch.step
            vals = []
            with pr.oneshot():
                s_in = sch.step
                for m in methods:
                    vals.append((m, version_of(m, getattr(pr, m)())))
                s_out = sch.step
            log[tag].append(dict(kind="block", entry_counter=e, step0=s0, step_in=s_in, step_out=s_out, step1=sch.step, vals=vals))

        def plain(tag, m):
            c0 = w.counter
            s0 = sch.step
            v = version_of(m, getattr(pr, m)())
            log[tag].append(dict(kind="plain", m=m, c0=c0, c1=w.counter, step0=s0, step1=sch.step, v=v))

        def asdict(tag):
            e = w.counter
            s0 = sch.step
            d = pr.as_dict(attrs=["cpu_times", "uids", "num_threads"])
            log[tag].append(dict(kind="asdict", entry_counter=e, step0=s0, step1=sch.step,
                                 vals=[(m, version_of(m, d[m])) for m in ("cpu_times", "uids", "num_threads")]))

        def A():
            if progA == "blocks2":
                block("A", ["cpu_times", "uids", "cpu_times"])
                block("A", ["cpu_times", "cpu_times", "uids"])
            elif progA == "blocks1":
                block("A", ["cpu_times", "uids", "cpu_times", "num_threads"])
            elif progA == "asdictA":
                asdict("A")
                asdict("A")

        def B():
            if progB == "plain3":
                plain("B", "cpu_times")
                plain("B", "cpu_times")
                plain("B", "uids")
            elif progB == "plain_status":
                plain("B", "uids")
                plain("B", "num_threads")
                plain("B", "cpu_times")
            elif progB == "asdict":
                asdict("B")
            elif progB == "blocksB":
                block("B", ["cpu_times", "uids"])

        sch.run([A, B])
    return sch, log


def judge_schedule(scn, sch, log):
    viols = []
    ctx_base = f"scenario={scn} preempt={sorted(sch.preempt)} first={sch.first} trace={''.join(map(str, sch.trace))}"
    if sch.error:
        return [("__inconclusive__", ctx_base + " watchdog fired")]
    for i, r in enumerate(sch.results):
        if r is None or r[0] == "deadlock":
            viols.append(("scheduler_deadlock", ctx_base + f" thread {i}: {r}"))
        elif r[0] == "exc":
            e = r[1]
            viols.append((f"thread_exception:{type(e).__name__}", ctx_base + f" thread {'AB'[i]} raised {e!r}"))
    blocks = [x for tag in ("A", "B") for x in log[tag] if x["kind"] in ("block", "asdict")]
    for tag in ("A", "B"):
        for rec in log[tag]:
            if rec["kind"] in ("block", "asdict"):
                firsts = {}
                for m, v in rec["vals"]:
                    if v is None:
                        continue
                    src = SOURCE[m]
                    if not v > rec["entry_counter"]:
                        viols.append(("inblock_value_older_than_block_entry", ctx_base + f" {tag} {rec}"))
                    if src in firsts and firsts[src][1] != v:
                        mech = "inblock_values_differ_for_one_source"
                        ti = 0 if tag == "A" else 1
                        otag = "B" if tag == "A" else "A"
                        rng_ = range(rec["step0"], min(rec["step1"] + 1, len(sch.points)))
                        first_body = next((i for i in rng_ if sch.points[i][0] == ti and sch.points[i][2] == "wrapper"), rec["step1"])
                        enter = [i for i in rng_ if i < first_body and sch.points[i][0] == ti
                                 and sch.points[i][2] in ("oneshot_enter", "cache_activate")]
                        # a yield point is the *start* of a line: the last activation line has run only when this
                        # thread reaches its next yield point
                        nxt = next((i for i in range(enter[-1] + 1, len(sch.points)) if sch.points[i][0] == ti),
                                   len(sch.points)) if enter else 0
                        if enter and any(o["step0"] < nxt and o["step1"] >= rec["step0"] for o in log[otag]):
                            # a call of the other thread was in flight while this block was being entered, i.e. between the
                            # activation of the front-end cache and of the platform-level cache (or between the three
                            # platform-level activations, each of which installs a new dict): that call reads and caches
                            # outside the block's final platform-level cache, so one source is read twice in the block
                            mech += ":other_thread_call_in_flight_during_block_entry"
                        viols.append((mech, ctx_base + f" {tag} {rec}"))
                    firsts.setdefault(src, (m, v))
            else:
                v = rec["v"]
                if v is None:
                    continue
                ok = v > rec["c0"]
                if not ok:
                    # may legitimately come from a block of the same object overlapping this call
                    for b in blocks:
                        if b["step0"] <= rec["step1"] and rec["step0"] <= b["step1"] and v > b["entry_counter"]:
                            ok = True
                if not ok:
                    viols.append(("plain_call_value_older_than_call", ctx_base + f" {tag} {rec} blocks={blocks}"))
                if v > rec["c1"]:
                    viols.append(("value_from_the_future", ctx_base + f" {tag} {rec}"))
    return viols


def baseline_steps(scn):
    sch, _ = run_schedule(scn, (), 0)
    return sch.step


def sched_cases(scn, bound, total):
    for first in (0, 1):
        for pre in _env["sched"].schedules_upto(total, bound):
            yield dict(scn=scn, preempt=list(pre), first=first)


def run_sched_case(case, acc, seen):
    sch, log = run_schedule(case["scn"], tuple(case["preempt"]), case["first"])
    viols = judge_schedule(case["scn"], sch, log)
    acc.count("schedules_run")
    h = (case["scn"], sch.interleaving_hash())
    if h not in seen:
        seen.add(h)
        acc.count("distinct_interleavings")
    inc = [v for v in viols if v[0] == "__inconclusive__"]
    if inc:
        acc.inconclusive = inc[0][1]
        viols = [v for v in viols if v[0] != "__inconclusive__"]
    acc.case(case, sch.context_switches() >= 2, viols, key=harness.chash(h),
             sample=dict(case, trace="".join(map(str, sch.trace)), fired=sch.fired))


# --------------------------------------------------------------------------------------------------
# part 3: free-running threads (no scheduler): pre-emption anywhere, not only at the chosen yield points
# --------------------------------------------------------------------------------------------------

def run_threads_case(case, acc):
    """Two or three real threads on one Process object with a 1 us switch interval. Same oracle as part 2; the
    block-entry window is measured with a monotonic clock around __enter__ (taken outside the calls, so an overlap is
    necessary for the known block-entry mechanism)."""
    env = setup()
    ps = env["ps"]
    w = Stamped()
    rng = harness.rng_for(case["seed"], "c16t", case["i"])
    nthreads = case["threads"]
    progs = [rng.choice(["blocks", "blocks", "plain", "asdict", "mixed"]) for _ in range(nthreads)]
    progs[0] = "blocks"
    if "plain" not in progs and "mixed" not in progs:
        progs[-1] = "plain"
    logs = [[] for _ in range(nthreads)]
    errors = []
    now = time.perf_counter_ns
    start = threading.Barrier(nthreads)
    old = sys.getswitchinterval()

    def worker(idx):
        r = harness.rng_for(case["seed"], "c16tw", case["i"], idx)
        log = logs[idx]
        try:
            start.wait()
            for _ in range(case["iters"]):
                kind = progs[idx] if progs[idx] != "mixed" else r.choice(["blocks", "plain", "asdict"])
                if kind == "blocks":
                    methods = [r.choice(["cpu_times", "uids", "num_threads", "cpu_times", "num_ctx_switches", "gids"])
                               for _ in range(r.randrange(2, 6))]
                    cm = pr.oneshot()
                    e = w.counter
                    t0 = now()
                    cm.__enter__()
                    t1 = now()
                    vals = []
                    try:
                        for m in methods:
                            vals.append((m, version_of(m, getattr(pr, m)())))
                    finally:
                        cm.__exit__(None, None, None)
                    log.append(dict(kind="block", entry_counter=e, t0=t0, t1=t1, t2=now(), vals=vals))
                elif kind == "plain":
                    m = r.choice(["cpu_times", "uids", "num_threads", "gids"])
                    c0 = w.counter
                    t0 = now()
                    v = version_of(m, getattr(pr, m)())
                    log.append(dict(kind="plain", m=m, c0=c0, c1=w.counter, t0=t0, t2=now(), v=v))
                else:
                    e = w.counter
                    t0 = now()
                    d = pr.as_dict(attrs=["cpu_times", "uids", "num_threads"])
                    log.append(dict(kind="asdict", entry_counter=e, t0=t0, t1=t0, t2=now(),
                                    vals=[(m, version_of(m, d[m])) for m in ("cpu_times", "uids", "num_threads")]))
        except BaseException as ex:  # noqa: BLE001
            errors.append((idx, ex))

    with w.vk:
        pr = ps.Process(50)
        sys.setswitchinterval(1e-6)
        try:
            ths = [threading.Thread(target=worker, args=(i,), daemon=True) for i in range(nthreads)]
            for t in ths:
                t.start()
            for t in ths:
                t.join(120)
            hung = [i for i, t in enumerate(ths) if t.is_alive()]
        finally:
            sys.setswitchinterval(old)
    viols = []
    ctx = f"free-running threads progs={progs} seed={case['seed']} i={case['i']}"
    if hung:
        acc.inconclusive = f"{ctx}: threads {hung} did not finish within 120 s"
    for idx, ex in errors:
        viols.append((f"thread_exception:{type(ex).__name__}", f"{ctx} thread {idx} raised {ex!r}"))
    interleaved = 0
    for idx, log in enumerate(logs):
        others = [o for j, lg in enumerate(logs) if j != idx for o in lg]
        for rec in log:
            if rec["kind"] == "plain":
                acc.count("free_running_plain_calls")
                v = rec["v"]
                if v is None:
                    continue
                ok = v > rec["c0"]
                if not ok:
                    ok = any(b["kind"] != "plain" and b["t0"] <= rec["t2"] and rec["t0"] <= b["t2"] and v > b["entry_counter"]
                             for lg in logs for b in lg)
                if not ok:
                    viols.append(("plain_call_value_older_than_call", f"{ctx} thread {idx} {rec}"))
                continue
            acc.count("free_running_blocks_checked")
            if any(o["t0"] <= rec["t2"] and rec["t0"] <= o["t2"] for o in others):
                interleaved += 1
            firsts = {}
            for m, v in rec["vals"]:
                if v is None:
                    continue
                acc.count("inblock_values_checked")
                src = SOURCE[m]
                if not v > rec["entry_counter"]:
                    viols.append(("inblock_value_older_than_block_entry", f"{ctx} thread {idx} {rec}"))
                if src in firsts and firsts[src] != v:
                    mech = "inblock_values_differ_for_one_source"
                    if any(o["t0"] <= rec["t1"] and o["t2"] >= rec["t0"] for o in others):
                        mech += ":other_thread_call_in_flight_during_block_entry"
                    viols.append((mech, f"{ctx} thread {idx} {rec}"))
                firsts.setdefault(src, v)
    acc.count("free_running_blocks_overlapping_other_calls", interleaved)
    acc.case(dict(kind="threads", **case), interleaved > 0, viols)


def run_piter_cases(acc):
    """process_iter(attrs=...) hands out Process objects while its generator stays suspended (the caller keeps the iterator, or is
    simply in the body of its for loop): for the caller no oneshot() block is open, so what it asks the object next is fresh -
    and asking from another thread does not hang."""
    import threading
    env = setup()
    ps = env["ps"]
    for attrs in (["cpu_times"], ["name", "status"], ["uids", "num_threads"], ["memory_maps"], []):
        for m in ("cpu_times", "num_threads", "uids", "memory_maps", "num_ctx_switches"):
            case = dict(kind="piter", attrs=attrs, then=m)
            viols = []
            w = Stamped()
            with w.vk:
                ps.virtual_memory()
                ps.boot_time()
                ps.process_iter.cache_clear()
                it = ps.process_iter(attrs=attrs)
                obj = None
                try:
                    for p in it:
                        if p.pid == 50:
                            obj = p
                            break           # the generator stays suspended right after the yield
                except Exception as e:  # noqa: BLE001
                    viols.append((f"process_iter_attrs_exception:{type(e).__name__}", repr(e)))
                if obj is not None:
                    c0 = w.counter
                    acc.count("calls_on_an_object_yielded_by_a_suspended_process_iter")
                    box = {}

                    def ask():
                        try:
                            box["v"] = getattr(obj, m)()
                        except BaseException as e:  # noqa: BLE001
                            box["exc"] = e
                    th = threading.Thread(target=ask, daemon=True)       # another thread than the one driving the generator
                    th.start()
                    th.join(60)
                    if th.is_alive():
                        acc.inconclusive = f"piter {attrs} {m}: the call from another thread did not return within 60 s"
                        acc.case(case, True, viols)
                        return
                    if "exc" in box:
                        viols.append((f"call_exception:{m}:after_process_iter_attrs", repr(box["exc"])))
                    else:
                        v = version_of(m, box["v"])
                        if v is not None and not v > c0:
                            viols.append((f"stale_value_outside_block:{m}:object_yielded_by_process_iter_attrs",
                                          f"attrs={attrs}: got v{v}, the counter before the call was v{c0}"))
                it.close()
                ps.process_iter.cache_clear()
            acc.case(case, True, viols)


def plan(tier, seed):
    shards = [dict(kind="piter")]
    nev = 6000 if tier == "quick" else 300000
    nparts = 8 if tier == "quick" else 32
    for s, c in harness.split_range(nev, nparts):
        shards.append(dict(kind="events", seed=seed, start=s, count=c))
    parts = 10 if tier == "quick" else 12
    for scn in SCENARIOS:
        if tier == "quick":
            bound = 2 if scn in ("one_block_vs_plain",) else 1
        else:
            bound = 2
        for part in range(parts if bound == 2 else 1):
            shards.append(dict(kind="sched_exh", scn=scn, bound=bound, part=part, parts=parts if bound == 2 else 1))
        nrand = 2400 if tier == "quick" else 100000
        for s, c in harness.split_range(nrand, 2 if tier == "quick" else 8):
            shards.append(dict(kind="sched_rand", scn=scn, seed=seed, start=s, count=c))
    for part in range(4 if tier == "quick" else 16):
        shards.append(dict(kind="threads", seed=seed, part=part, count=6 if tier == "quick" else 60, iters=300))
    return shards


def run_shard(shard):
    acc = harness.Acc(max_samples=2)
    setup()
    k = shard["kind"]
    seen = set()
    if k == "events":
        for i in range(shard["start"], shard["start"] + shard["count"]):
            run_events(gen_events(harness.rng_for(shard["seed"], "c16", i)), acc)
    elif k == "piter":
        run_piter_cases(acc)
    elif k == "sched_exh":
        total = baseline_steps(shard["scn"])
        acc.extra.setdefault("yield_points_per_scenario", {})[shard["scn"]] = total
        for i, case in enumerate(sched_cases(shard["scn"], shard["bound"], total)):
            if i % shard["parts"] == shard["part"]:
                run_sched_case(case, acc, seen)
        acc.exhaustive = True
    elif k == "sched_rand":
        total = baseline_steps(shard["scn"])
        for i in range(shard["start"], shard["start"] + shard["count"]):
            rng = harness.rng_for(shard["seed"], "c16s", shard["scn"], i)
            d = rng.choice([3, 3, 4])
            pre = sorted(rng.sample(range(total), d))
            run_sched_case(dict(scn=shard["scn"], preempt=pre, first=rng.randrange(2)), acc, seen)
    elif k == "threads":
        for i in range(shard["count"]):
            run_threads_case(dict(seed=shard["seed"], i=shard["part"] * 1000 + i, threads=2 + (i % 2), iters=shard["iters"]), acc)
    elif k == "cases":
        for case in shard["cases"]:
            if case.get("kind") == "threads":
                run_threads_case({k_: v for k_, v in case.items() if k_ != "kind"}, acc)
            elif case.get("kind") == "piter":
                run_piter_cases(acc)
            elif "events" in case:
                run_events(case["events"], acc)
            else:
                run_sched_case(case, acc, seen)
    return acc.result()
