/* pidreuse <target-pid> <max-forks>
 * Forks short-lived children until one of them is given <target-pid> by the kernel (pids are handed out cyclically),
 * i.e. produces a REAL recycling of that pid. Prints "GOT <pid> <forks>\n" and keeps that child (which just pauses)
 * alive until stdin is closed, then kills and reaps it. Prints "MISS <forks>\n" and exits 3 if it gave up.          */
#define _GNU_SOURCE
#include <signal.h>
#include <stdio.h>
#include <stdlib.h>
#include <sys/types.h>
#include <sys/wait.h>
#include <unistd.h>

int main(int argc, char **argv) {
    if (argc < 3) return 2;
    pid_t target = (pid_t)atol(argv[1]);
    long max = atol(argv[2]);
    long n;
    for (n = 0; n < max; n++) {
        pid_t pid = fork();
        if (pid < 0) { usleep(1000); continue; }
        if (pid == 0) {
            if (getpid() == target) {
                /* the newcomer: an innocent bystander that must never be touched */
                for (;;) pause();
            }
            _exit(0);
        }
        if (pid == target) {
            char c;
            printf("GOT %ld %ld\n", (long)pid, n + 1);
            fflush(stdout);
            while (read(0, &c, 1) > 0) {}
            kill(pid, SIGKILL);
            waitpid(pid, NULL, 0);
            return 0;
        }
        waitpid(pid, NULL, 0);
    }
    printf("MISS %ld\n", n);
    return 3;
}
