/* LD_PRELOAD interposer: makes the C library's sched_getaffinity() behave as on a kernel with many possible CPUs
 * (BIGCPU_POSSIBLE, default 256): the kernel refuses a buffer shorter than nr_cpu_ids bits with EINVAL, which is what
 * makes a caller grow its cpu set and retry.  Everything else goes to the real function.                            */
#define _GNU_SOURCE
#include <dlfcn.h>
#include <errno.h>
#include <sched.h>
#include <stdlib.h>
#include <string.h>
#include <sys/types.h>

static int possible(void) {
    const char *e = getenv("BIGCPU_POSSIBLE");
    int n = e ? atoi(e) : 256;
    return n > 0 ? n : 256;
}

int sched_getaffinity(pid_t pid, size_t cpusetsize, cpu_set_t *mask) {
    static int (*real)(pid_t, size_t, cpu_set_t *);
    if (!real)
        real = (int (*)(pid_t, size_t, cpu_set_t *))dlsym(RTLD_NEXT, "sched_getaffinity");
    if (cpusetsize * 8 < (size_t)possible()) {
        errno = EINVAL;
        return -1;
    }
    return real(pid, cpusetsize, mask);
}
