"""Result accumulator shared by all checks (what a shard returns to the driver)."""
import collections
import hashlib
import json
import random


def chash(obj):
    return hashlib.sha1(json.dumps(obj, sort_keys=True, default=str).encode()).hexdigest()[:12]


class Acc:
    MAX_VIOL = 40

    def __init__(self, max_samples=3):
        self.evals = 0
        self.nontrivial = set()
        self.violations = []
        self.viol_counts = collections.Counter()
        self.samples = []
        self.counters = collections.Counter()
        self.max_samples = max_samples
        self.inconclusive = None
        self.exhaustive = None
        self.extra = {}

    def case(self, case, nontrivial, viols=(), sample=None, key=None):
        """Record one evaluated case. viols: iterable of (mech, detail)."""
        self.evals += 1
        if nontrivial:
            self.nontrivial.add(key if key is not None else chash(case))
        if len(self.samples) < self.max_samples and (nontrivial or not self.samples):
            self.samples.append(sample if sample is not None else case)
        for mech, detail in viols:
            self.viol(mech, detail, case)

    def viol(self, mech, detail, case=None):
        self.viol_counts[mech] += 1
        if self.viol_counts[mech] <= 3 and len(self.violations) < self.MAX_VIOL:
            self.violations.append(dict(mech=mech, detail=str(detail)[:2000], case=case))

    def count(self, name, n=1):
        self.counters[name] += n

    def result(self):
        r = dict(evals=self.evals, nontrivial=sorted(self.nontrivial), violations=self.violations,
                 viol_counts=dict(self.viol_counts), samples=self.samples,
                 counters=dict(self.counters), extra=self.extra)
        if self.inconclusive:
            r["inconclusive"] = self.inconclusive
        if self.exhaustive is not None:
            r["exhaustive"] = self.exhaustive
        return r


def split_range(n, parts):
    """Split range(n) into <= parts contiguous (start, count) chunks."""
    parts = max(1, min(parts, n))
    base, rem = divmod(n, parts)
    out, s = [], 0
    for i in range(parts):
        c = base + (1 if i < rem else 0)
        if c:
            out.append((s, c))
        s += c
    return out


def rng_for(seed, *parts):
    return random.Random(f"{seed}:" + ":".join(map(str, parts)))


def mark_current(case):
    """Record the case about to run, so that a worker killed by a sanitizer leaves its input behind."""
    import os
    path = os.environ.get("VERIF_CUR_FILE")
    if path:
        with open(path, "w") as f:
            json.dump(case, f, default=str)
