"""sched - deterministic line-granularity scheduler for two (or more) threads.

Exactly one thread runs at a time.  Yield points are `line` events inside a chosen set of code objects
(the anchored mechanism: shared-state accesses).  A schedule is a set of global step indices at which
control moves to the next runnable thread; it is therefore replayable from a list of integers.
Blocking locks of the code under test must be wrapped with CoopLock so a blocked thread hands control back.
"""
import hashlib
import sys
import threading


class Deadlock(Exception):
    pass


class Sched:
    def __init__(self, codes, preempt=(), first=0, watchdog=20.0, max_steps=200000):
        # codes: iterable of code objects (all lines) or dict code -> set(linenos) | None
        if isinstance(codes, dict):
            self.codes = dict(codes)
        else:
            self.codes = {c: None for c in codes}
        self.preempt = set(preempt)
        self.first = first
        self.watchdog = watchdog
        self.max_steps = max_steps
        self.step = 0
        self.trace = []           # thread index at each yield point
        self.points = []          # (thread, lineno) at each yield point (optional detail)
        self.forced = 0
        self.n = 0
        self.sems = []
        self.done = []
        self.results = []
        self.idx = threading.local()
        self.error = None
        self.fired = []           # preemption steps that actually switched

    # -- tracer ------------------------------------------------------------------------------
    def _global_trace(self, frame, event, arg):
        if frame.f_code in self.codes:
            return self._local_trace
        return None

    def _local_trace(self, frame, event, arg):
        if event == "line":
            lines = self.codes.get(frame.f_code)
            if lines is None or frame.f_lineno in lines:
                self.yield_point(frame.f_lineno, frame.f_code.co_name)
        return self._local_trace

    # -- scheduling -----------------------------------------------------------------------------
    def yield_point(self, lineno=0, name=""):
        i = self.idx.i
        s = self.step
        self.step += 1
        self.trace.append(i)
        self.points.append((i, lineno, name))
        if self.step > self.max_steps:
            raise Deadlock("step budget exceeded")
        if s in self.preempt:
            if self._switch(i):
                self.fired.append(s)

    def _next(self, i):
        for k in range(1, self.n + 1):
            j = (i + k) % self.n
            if j != i and not self.done[j]:
                return j
        return None

    def _switch(self, i):
        j = self._next(i)
        if j is None:
            return False
        self.sems[j].release()
        self.sems[i].acquire()
        return True

    def block_switch(self):
        """Called by CoopLock when the running thread would block."""
        i = self.idx.i
        self.forced += 1
        if self.forced > 10000:
            raise Deadlock("lock never released")
        # logical deadlock: every unfinished thread has come here - twice in a row for this one - without anybody passing a yield
        # point or finishing in between
        ba = self.__dict__.setdefault("_blocked_at", {})
        mark = (self.step, sum(self.done))
        again = ba.get(i) == mark
        ba[i] = mark
        if again and all(self.done[j] or ba.get(j) == mark for j in range(self.n) if j != i):
            raise Deadlock("every thread is blocked (on a lock or on waiting for another thread)")
        if not self._switch(i):
            raise Deadlock("blocked with no other runnable thread")

    def wait_done(self, j):
        """The running thread waits until thread j has finished (a join): the others run meanwhile; if nobody can make progress
        this is a deadlock, decided in logical steps."""
        while not self.done[j]:
            self.block_switch()

    def _runner(self, i, fn):
        self.idx.i = i
        self.sems[i].acquire()
        sys.settrace(self._global_trace)
        try:
            try:
                self.results[i] = ("ok", fn())
            except Deadlock as e:
                self.results[i] = ("deadlock", str(e))
            except BaseException as e:  # noqa: BLE001
                self.results[i] = ("exc", e)
        finally:
            sys.settrace(None)
            self.done[i] = True
            j = self._next(i)
            if j is not None:
                self.sems[j].release()
            else:
                self.finished.set()

    def run(self, fns, raw_threads=False):
        """raw_threads: the workers are started with _thread.start_new_thread() - threads the `threading` module knows nothing
        about (threading.active_count() stays 1), like the ones an embedding C program or a ctypes callback creates."""
        self.n = len(fns)
        self.sems = [threading.Semaphore(0) for _ in fns]
        self.done = [False] * self.n
        self.results = [None] * self.n
        self.finished = threading.Event()
        if raw_threads:
            import _thread
            ths = []
            for i, f in enumerate(fns):
                _thread.start_new_thread(self._runner, (i, f))
        else:
            ths = [threading.Thread(target=self._runner, args=(i, f), daemon=True) for i, f in enumerate(fns)]
            for t in ths:
                t.start()
        self.sems[self.first].release()
        ok = self.finished.wait(self.watchdog)
        if not ok:
            self.error = "watchdog"
        else:
            for t in ths:
                t.join(self.watchdog)
        return self

    def interleaving_hash(self):
        return hashlib.sha1(bytes(self.trace)).hexdigest()[:12]

    def context_switches(self):
        return sum(1 for a, b in zip(self.trace, self.trace[1:]) if a != b)


class CoopLock:
    """Cooperative wrapper for a Lock/RLock of the code under test."""

    def __init__(self, real, sched_ref):
        self._real = real
        self._sched_ref = sched_ref     # callable -> current Sched or None

    def acquire(self, blocking=True, timeout=-1):
        s = self._sched_ref()
        if s is None or not hasattr(s.idx, "i"):
            return self._real.acquire(blocking, timeout)
        while not self._real.acquire(False):
            if not blocking:
                return False
            s.block_switch()
        return True

    def release(self):
        self._real.release()

    def __enter__(self):
        self.acquire()
        return self

    def __exit__(self, *a):
        self.release()


def coop_module_locks(modules, sched_ref):
    """Every Lock/RLock bound to a module-level name of `modules` becomes cooperative (also locks a changed tree added): a thread
    that would block on one hands the processor to the others instead of freezing the scheduler. -> undo()"""
    import threading
    kinds = (type(threading.Lock()), type(threading.RLock()))
    saved = []
    for m in modules:
        for name, val in list(vars(m).items()):
            if isinstance(val, kinds):
                saved.append((m, name, val))
                setattr(m, name, CoopLock(val, sched_ref))

    def undo():
        for m, name, val in saved:
            setattr(m, name, val)
    undo.count = len(saved)
    return undo


def schedules_upto(total, bound):
    """All preemption sets of size <= bound over range(total)."""
    import itertools
    for d in range(bound + 1):
        for c in itertools.combinations(range(total), d):
            yield c


def lines_matching(code, *needles):
    """Line numbers of `code` whose source text contains one of the needles (shared-state accesses)."""
    import inspect
    src, first = inspect.getsourcelines(code)
    out = set()
    for i, line in enumerate(src):
        if any(n in line for n in needles):
            out.add(first + i)
    return out
