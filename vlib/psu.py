"""Import psutil from the overlay with the vkernel shim installed first (import-time probes see it)."""
import os
import sys

from . import vkernel

_ps = None


def load(sinks=True, pre_vk=None):
    """Import psutil (overlay must be first on sys.path - the driver's worker env guarantees it)."""
    global _ps
    if _ps is None:
        vkernel.install()
        if pre_vk is not None:
            with pre_vk:
                import psutil
        else:
            import psutil
        ov = os.environ.get("VERIF_OVERLAY")
        repo = os.environ.get("VERIF_REPO", "/repo")
        if ov and not os.path.realpath(psutil.__file__).startswith(os.path.realpath(repo)):
            raise RuntimeError(f"psutil imported from unexpected place {psutil.__file__}")
        if ov and not psutil.__file__.startswith(ov):
            raise RuntimeError(f"psutil not imported from the overlay: {psutil.__file__}")
        _ps = psutil
    vkernel.install(_ps, sinks=sinks)
    return _ps
