"""platstub - run the *real* Python half of a foreign platform layer on Linux over a stub native layer.

One interpreter can be exactly one platform: `load(platform)` pre-imports the stdlib, patches
`sys.platform` / `os.name`, registers stub extension modules (`psutil._psutil_<plat>`,
`psutil._psutil_posix`) in `sys.modules` and then imports psutil from the overlay, so that the
unmodified `psutil/__init__.py` dispatch, `_ps<plat>.py`, `_common.py` and `_psposix.py` run.

The stub
* answers constants with pairwise distinct integers (documented Win32 values for the Windows layer),
* fills native records with pairwise distinct values per slot; the slot order (`LAYOUT`) is transcribed
  from the `Py_BuildValue` calls of the C sources, never from the `*_map` dicts of the module under test,
* records every native call / procfs access / kill / waitpid (name, args, index, call-stack
  classification: issued from within a Process method of the platform module? under a probe such as
  is_zombie()/pid_exists()/pids()? under the front end's identity re-check?),
* raises scripted `OSError(errno)` (with `.winerror` on Windows) by *faultable-call index*,
* answers the layer's status probes according to `world.state` in {"live", "gone", "zombie"},
* serves fake /proc trees through vkernel (sunos, aix, netbsd), a virtual clock and canned
  subprocess output (swap -l, pfiles, procfiles, lsdev, entstat).
"""
import collections
import errno
import os
import re
import socket
import sys
import types

PLATFORMS = {
    "freebsd": dict(sysplat="freebsd13", osname="posix", cext="_psutil_bsd", mod="_psbsd"),
    "openbsd": dict(sysplat="openbsd7", osname="posix", cext="_psutil_bsd", mod="_psbsd"),
    "netbsd": dict(sysplat="netbsd9", osname="posix", cext="_psutil_bsd", mod="_psbsd"),
    "osx": dict(sysplat="darwin", osname="posix", cext="_psutil_osx", mod="_psosx"),
    "sunos": dict(sysplat="sunos5", osname="posix", cext="_psutil_sunos", mod="_pssunos"),
    "aix": dict(sysplat="aix7", osname="posix", cext="_psutil_aix", mod="_psaix"),
    "windows": dict(sysplat="win32", osname="nt", cext="_psutil_windows", mod="_pswindows"),
}
PROCFS_PLATFORMS = ("sunos", "aix", "netbsd")

PRE_IMPORT = [
    "collections", "contextlib", "datetime", "functools", "os", "signal", "socket", "subprocess", "sys",
    "threading", "time", "enum", "errno", "glob", "struct", "warnings", "ctypes", "pwd", "ipaddress",
    "stat", "re", "shutil", "xml.etree.ElementTree", "resource", "traceback", "json", "random", "hashlib",
    "posixpath", "ntpath", "genericpath", "fnmatch", "io", "platform", "tempfile", "atexit", "types",
    "itertools", "copy", "inspect", "linecache", "tokenize", "logging", "string", "textwrap", "select",
    "selectors", "grp", "locale", "encodings.utf_8", "encodings.latin_1", "encodings.idna", "multiprocessing",
]

# ---------------------------------------------------------------------------------------------------
# constants of the native modules (names transcribed from PyModule_AddIntConstant calls)
# ---------------------------------------------------------------------------------------------------

TCPS_BSD = ["TCPS_CLOSED", "TCPS_CLOSING", "TCPS_CLOSE_WAIT", "TCPS_LISTEN", "TCPS_ESTABLISHED",
            "TCPS_SYN_SENT", "TCPS_SYN_RECEIVED", "TCPS_FIN_WAIT_1", "TCPS_FIN_WAIT_2", "TCPS_LAST_ACK",
            "TCPS_TIME_WAIT"]
TCPS_SYSV = [n.replace("SYN_RECEIVED", "SYN_RCVD") for n in TCPS_BSD]

CONST_NAMES = {
    "freebsd": ["SIDL", "SRUN", "SSLEEP", "SSTOP", "SZOMB", "SWAIT", "SLOCK"] + TCPS_BSD,
    "openbsd": ["SIDL", "SRUN", "SSLEEP", "SSTOP", "SZOMB", "SDEAD", "SONPROC"] + TCPS_BSD,
    "netbsd": ["SIDL", "SRUN", "SSLEEP", "SSTOP", "SZOMB", "SDEAD", "SONPROC", "SSUSPENDED"] + TCPS_BSD,
    "osx": ["SIDL", "SRUN", "SSLEEP", "SSTOP", "SZOMB"] + TCPS_BSD,
    "sunos": ["SSLEEP", "SRUN", "SZOMB", "SSTOP", "SIDL", "SONPROC", "SWAIT", "PRNODEV"] + TCPS_SYSV
             + ["TCPS_IDLE", "TCPS_BOUND"],
    "aix": ["SIDL", "SZOMB", "SACTIVE", "SSWAP", "SSTOP"] + TCPS_SYSV,
}
# documented Win32 API values (winnt.h / winerror.h / iprtrmib.h), not taken from the module under test
WINDOWS_CONSTS = dict(
    ABOVE_NORMAL_PRIORITY_CLASS=0x8000, BELOW_NORMAL_PRIORITY_CLASS=0x4000, HIGH_PRIORITY_CLASS=0x80,
    IDLE_PRIORITY_CLASS=0x40, NORMAL_PRIORITY_CLASS=0x20, REALTIME_PRIORITY_CLASS=0x100,
    MIB_TCP_STATE_CLOSED=1, MIB_TCP_STATE_LISTEN=2, MIB_TCP_STATE_SYN_SENT=3, MIB_TCP_STATE_SYN_RCVD=4,
    MIB_TCP_STATE_ESTAB=5, MIB_TCP_STATE_FIN_WAIT1=6, MIB_TCP_STATE_FIN_WAIT2=7, MIB_TCP_STATE_CLOSE_WAIT=8,
    MIB_TCP_STATE_CLOSING=9, MIB_TCP_STATE_LAST_ACK=10, MIB_TCP_STATE_TIME_WAIT=11,
    MIB_TCP_STATE_DELETE_TCB=12, PSUTIL_CONN_NONE=128, INFINITE=0xFFFFFFFF,
    ERROR_ACCESS_DENIED=5, ERROR_INVALID_NAME=123, ERROR_SERVICE_DOES_NOT_EXIST=1060,
    ERROR_PRIVILEGE_NOT_HELD=1314, WINVER=100, WINDOWS_VISTA=60, WINDOWS_7=61, WINDOWS_8=62,
    WINDOWS_8_1=63, WINDOWS_10=100,
)
# RLIMIT names _psutil_posix.c adds when the FreeBSD headers define them (sys/resource.h of FreeBSD 13)
FREEBSD_RLIMITS = ["RLIMIT_AS", "RLIMIT_CORE", "RLIMIT_CPU", "RLIMIT_DATA", "RLIMIT_FSIZE", "RLIMIT_MEMLOCK",
                   "RLIMIT_NOFILE", "RLIMIT_NPROC", "RLIMIT_RSS", "RLIMIT_STACK", "RLIMIT_SWAP",
                   "RLIMIT_SBSIZE", "RLIMIT_NPTS", "RLIM_INFINITY"]

# ---------------------------------------------------------------------------------------------------
# native function tables (names transcribed from the PyMethodDef tables, per platform #ifdef)
# ---------------------------------------------------------------------------------------------------

_BSD_COMMON = ["proc_cmdline", "proc_name", "proc_oneshot_info", "proc_threads", "proc_cwd", "proc_num_fds",
               "proc_open_files", "proc_environ", "boot_time", "cpu_count_logical", "cpu_stats", "cpu_times",
               "disk_io_counters", "disk_partitions", "net_connections", "net_io_counters", "per_cpu_times",
               "pids", "swap_mem", "users", "virtual_mem", "check_pid_range", "set_debug"]
FUNCS = {
    "freebsd": _BSD_COMMON + ["proc_net_connections", "proc_num_threads", "cpu_topology",
                              "proc_cpu_affinity_get", "proc_cpu_affinity_set", "proc_exe", "proc_getrlimit",
                              "proc_memory_maps", "proc_setrlimit", "cpu_freq", "sensors_battery",
                              "sensors_cpu_temperature"],
    "openbsd": _BSD_COMMON + ["cpu_freq"],
    "netbsd": _BSD_COMMON + ["proc_num_threads"],
    "osx": ["proc_cmdline", "proc_net_connections", "proc_cwd", "proc_environ", "proc_exe",
            "proc_kinfo_oneshot", "proc_memory_uss", "proc_name", "proc_num_fds", "proc_open_files",
            "proc_pidtaskinfo_oneshot", "proc_threads", "boot_time", "cpu_count_cores", "cpu_count_logical",
            "cpu_freq", "cpu_stats", "cpu_times", "disk_io_counters", "disk_partitions", "disk_usage_used",
            "net_io_counters", "per_cpu_times", "pids", "sensors_battery", "swap_mem", "users", "virtual_mem",
            "check_pid_range", "set_debug"],
    "sunos": ["proc_basic_info", "proc_cpu_num", "proc_cpu_times", "proc_cred", "proc_environ",
              "proc_memory_maps", "proc_name_and_args", "proc_num_ctx_switches", "query_process_thread",
              "boot_time", "cpu_count_cores", "cpu_stats", "disk_io_counters", "disk_partitions",
              "net_connections", "net_if_stats", "net_io_counters", "per_cpu_times", "swap_mem", "users",
              "check_pid_range", "set_debug"],
    "aix": ["proc_args", "proc_basic_info", "proc_cpu_times", "proc_cred", "proc_environ", "proc_name",
            "proc_threads", "proc_io_counters", "proc_num_ctx_switches", "boot_time", "disk_io_counters",
            "disk_partitions", "per_cpu_times", "swap_mem", "users", "virtual_mem", "net_io_counters",
            "cpu_stats", "net_connections", "net_if_stats", "check_pid_range", "set_debug"],
    "windows": ["proc_cmdline", "proc_cpu_affinity_get", "proc_cpu_affinity_set", "proc_cwd", "proc_environ",
                "proc_exe", "proc_io_counters", "proc_io_priority_get", "proc_io_priority_set",
                "proc_is_suspended", "proc_kill", "proc_memory_info", "proc_memory_maps", "proc_memory_uss",
                "proc_num_handles", "proc_open_files", "proc_priority_get", "proc_priority_set",
                "proc_suspend_or_resume", "proc_threads", "proc_times", "proc_username", "proc_wait",
                "proc_info", "boot_time", "cpu_count_cores", "cpu_count_logical", "cpu_freq", "cpu_stats",
                "cpu_times", "disk_io_counters", "disk_partitions", "disk_usage", "getloadavg", "getpagesize",
                "swap_percent", "init_loadavg_counter", "net_connections", "net_if_addrs", "net_if_stats",
                "net_io_counters", "per_cpu_times", "pid_exists", "pids", "ppid_map", "sensors_battery",
                "users", "virtual_mem", "winservice_enumerate", "winservice_query_config",
                "winservice_query_descr", "winservice_query_status", "winservice_start", "winservice_stop",
                "QueryDosDevice", "check_pid_range", "set_debug"],
}
POSIX_FUNCS = ["getpagesize", "getpriority", "net_if_addrs", "net_if_flags", "net_if_is_running", "net_if_mtu",
               "setpriority"]
POSIX_FUNCS_BSD_OSX = ["net_if_duplex_speed"]

# Which native status codes mean "zombie" to each kernel (independent transcription: sys/proc.h of the BSDs and
# the comments of _psbsd.py - "According to /usr/include/sys/proc.h SZOMB is unused [on OpenBSD] ...
# SDEAD really means STATUS_ZOMBIE"; docs: STATUS_ZOMBIE).  The zombie scenario is run once per code.
# Solaris / AIX decide "zombie" by "ESRCH/ENOENT although the pid still exists", the code in the record is SZOMB.
ZOMBIE_CODES = {"freebsd": ["SZOMB"], "netbsd": ["SZOMB"], "openbsd": ["SDEAD", "SZOMB"], "osx": ["SZOMB"],
                "sunos": ["SZOMB"], "aix": ["SZOMB"]}

# natives that are never per-process (argument checks, system-wide tables)
SYSTEM_WIDE = {
    "check_pid_range", "set_debug", "virtual_mem", "per_cpu_times", "cpu_times", "cpu_count_logical",
    "cpu_count_cores", "pids", "ppid_map", "pid_exists", "boot_time", "QueryDosDevice", "getpagesize",
    "swap_mem", "users", "cpu_stats", "cpu_freq", "disk_partitions", "disk_io_counters", "net_io_counters",
    "net_if_addrs", "net_if_stats", "net_if_mtu", "net_if_flags", "net_if_duplex_speed", "cpu_topology",
    "subprocess", "disk_usage", "swap_percent", "getloadavg", "init_loadavg_counter", "sensors_battery",
    "sensors_cpu_temperature", "disk_usage_used", "net_if_is_running",
}
# Python-level probe functions: a native call / OS access issued underneath one of these answers
# "does the pid still exist / is it a zombie", it is not part of the method's own work
# natives that do not fail for a PID that is gone (they filter a system-wide table by PID; C sources: openbsd/proc.c
# kvm_getprocs -> 0 entries, */socks.c table walks, netbsd kinfo_getfile by pid, sunos/aix net_connections)
SILENT_NATIVES = {
    "openbsd": {"proc_threads": [], "net_connections": []},
    "netbsd": {"net_connections": [], "proc_num_fds": 0},
    "sunos": {"net_connections": []},
    "aix": {"net_connections": [], "proc_threads": []},
    "windows": {"net_connections": []},
}
PROBE_FUNCS = {"is_zombie", "pid_exists", "pids", "_pid_0_exists"}
# front-end frames whose native calls belong to the identity re-check, not to the method under test
FRONT_RECHECK = {"is_running", "_init", "_get_ident", "__init__"}
PATH_PREDICATES = {"exists", "lexists", "isfile", "isdir", "islink"}

# ---------------------------------------------------------------------------------------------------
# record layouts: slot order of the native builders (Py_BuildValue argument order in the C sources)
# ---------------------------------------------------------------------------------------------------

LAYOUT = {
    # arch/bsd/proc.c psutil_proc_oneshot_info "(OillllllLdllllddddlllllbO)"
    "bsd:proc_oneshot_info": ["ppid", "status", "ruid", "euid", "suid", "rgid", "egid", "sgid", "ttynr", "ctime",
                              "nvcsw", "nivcsw", "inblock", "oublock", "utime", "stime", "ch_utime", "ch_stime",
                              "rss", "vms", "text", "data", "stack", "oncpu", "name"],
    # arch/osx/proc.c psutil_proc_kinfo_oneshot / psutil_proc_pidtaskinfo_oneshot
    "osx:proc_kinfo_oneshot": ["ppid", "ruid", "euid", "suid", "rgid", "egid", "sgid", "ttynr", "ctime", "status",
                               "name"],
    "osx:proc_pidtaskinfo_oneshot": ["utime", "stime", "rss", "vms", "pfaults", "pageins", "numthreads",
                                     "volctxsw"],
    # _psutil_sunos.c
    "sunos:proc_basic_info": ["ppid", "rss", "vms", "ctime", "nice", "nlwp", "status", "ttynr", "uid", "euid",
                              "gid", "egid"],
    "sunos:proc_cred": ["ruid", "euid", "suid", "rgid", "egid", "sgid"],
    "sunos:proc_cpu_times": ["utime", "stime", "cutime", "cstime"],
    "sunos:proc_num_ctx_switches": ["vctx", "ictx"],
    "sunos:query_process_thread": ["utime", "stime"],
    # _psutil_aix.c
    "aix:proc_basic_info": ["ppid", "rss", "vms", "ctime", "nice", "nlwp", "status", "ttynr"],
    "aix:proc_cred": ["ruid", "euid", "suid", "rgid", "egid", "sgid"],
    "aix:proc_cpu_times": ["utime", "stime", "cutime", "cstime"],
    "aix:proc_num_ctx_switches": ["nvcsw", "nivcsw"],
    "aix:proc_io_counters": ["inOps", "outOps", "inBytes", "outBytes"],
    # arch/windows/proc_info.c psutil_proc_info, arch/windows/proc.c
    "windows:proc_info": ["num_handles", "ctx_switches", "user_time", "kernel_time", "create_time", "num_threads",
                          "io_rcount", "io_wcount", "io_rbytes", "io_wbytes", "io_count_others",
                          "io_bytes_others", "num_page_faults", "peak_wset", "wset", "peak_paged_pool",
                          "paged_pool", "peak_non_paged_pool", "non_paged_pool", "pagefile", "peak_pagefile",
                          "mem_private"],
    "windows:proc_times": ["user", "kernel", "create"],
    "windows:proc_memory_info": ["num_page_faults", "peak_wset", "wset", "peak_paged_pool", "paged_pool",
                                 "peak_non_paged_pool", "non_paged_pool", "pagefile", "peak_pagefile", "private"],
    "windows:proc_io_counters": ["rcount", "wcount", "rbytes", "wbytes", "ocount", "obytes"],
    # system-wide builders
    "freebsd:virtual_mem": ["total", "free", "active", "inactive", "wired", "cached", "buffers", "shared"],
    "openbsd:virtual_mem": ["total", "free", "active", "inactive", "wired", "cached", "buffers", "shared"],
    "netbsd:virtual_mem": ["total", "free", "active", "inactive", "wired", "cached"],
    "osx:virtual_mem": ["total", "active", "inactive", "wired", "free", "speculative"],
    "aix:virtual_mem": ["total", "avail", "free", "pinned", "inuse"],
    "windows:virtual_mem": ["totphys", "availphys", "totsys", "availsys"],
    "bsd:swap_mem": ["total", "used", "free", "sin", "sout"],
    "osx:swap_mem": ["total", "used", "free", "sin", "sout"],
    "aix:swap_mem": ["total", "free", "sin", "sout"],
    "sunos:swap_mem": ["sin", "sout"],
    "bsd:cpu_times": ["user", "nice", "system", "idle", "irq"],
    "osx:cpu_times": ["user", "nice", "system", "idle"],
    "sunos:per_cpu_times": ["user", "system", "idle", "iowait"],
    "aix:per_cpu_times": ["user", "system", "idle", "iowait"],
    "windows:cpu_times": ["user", "system", "idle"],
    "windows:per_cpu_times": ["user", "system", "idle", "interrupt", "dpc"],
    "freebsd:cpu_stats": ["ctx_switches", "interrupts", "soft_interrupts", "syscalls", "traps"],
    "osx:cpu_stats": ["ctx_switches", "interrupts", "soft_interrupts", "syscalls", "traps"],
    "openbsd:cpu_stats": ["ctx_switches", "interrupts", "soft_interrupts", "syscalls", "traps", "faults", "forks"],
    "netbsd:cpu_stats": ["ctx_switches", "interrupts", "soft_interrupts", "syscalls", "traps", "faults", "forks"],
    "sunos:cpu_stats": ["ctx_switches", "interrupts", "syscalls", "traps"],
    "aix:cpu_stats": ["ctx_switches", "interrupts", "soft_interrupts", "syscalls"],
    "windows:cpu_stats": ["ctx_switches", "interrupts", "dpcs", "syscalls"],
    "freebsd:disk_io_counters": ["read_count", "write_count", "read_bytes", "write_bytes", "read_time",
                                 "write_time", "busy_time"],
    "openbsd:disk_io_counters": ["read_count", "write_count", "read_bytes", "write_bytes"],
    "netbsd:disk_io_counters": ["read_count", "write_count", "read_bytes", "write_bytes"],
    "osx:disk_io_counters": ["read_count", "write_count", "read_bytes", "write_bytes", "read_time", "write_time"],
    "sunos:disk_io_counters": ["read_count", "write_count", "read_bytes", "write_bytes", "read_time",
                               "write_time"],
    "aix:disk_io_counters": ["read_count", "write_count", "read_bytes", "write_bytes", "read_time", "write_time"],
    "windows:disk_io_counters": ["read_count", "write_count", "read_bytes", "write_bytes", "read_time",
                                 "write_time"],
    # every platform: (obytes, ibytes, opackets, ipackets, ierrors, oerrors, iqdrops, oqdrops)
    "any:net_io_counters": ["bytes_sent", "bytes_recv", "packets_sent", "packets_recv", "errin", "errout",
                            "dropin", "dropout"],
    "any:disk_partitions": ["device", "mountpoint", "fstype", "opts"],
    "bsd:users": ["user", "tty", "hostname", "tstamp", "pid"],
    "osx:users": ["user", "tty", "hostname", "tstamp", "pid"],
    "sunos:users": ["user", "tty", "hostname", "tstamp", "user_process", "pid"],
    "aix:users": ["user", "tty", "hostname", "tstamp", "user_process", "pid"],
    "windows:users": ["user", "hostname", "tstamp"],
}
FLOAT_SLOTS = {"ctime", "utime", "stime", "ch_utime", "ch_stime", "cutime", "cstime", "user_time", "kernel_time",
               "create_time", "user", "kernel", "create", "nice_t", "system", "idle", "irq", "iowait", "interrupt",
               "dpc", "tstamp"}


_A4, _A6, _AU = socket.AF_INET, socket.AF_INET6, socket.AF_UNIX
_ST, _DG, _SP = socket.SOCK_STREAM, socket.SOCK_DGRAM, socket.SOCK_SEQPACKET
# docs/index.rst net_connections() "kind" table (what the NetBSD native filters by)
KIND_MAP = {
    "all": ({_A4, _A6, _AU}, {_ST, _DG, _SP}), "tcp": ({_A4, _A6}, {_ST}), "tcp4": ({_A4}, {_ST}),
    "tcp6": ({_A6}, {_ST}), "udp": ({_A4, _A6}, {_DG}), "udp4": ({_A4}, {_DG}), "udp6": ({_A6}, {_DG}),
    "unix": ({_AU}, {_ST, _DG, _SP}), "inet": ({_A4, _A6}, {_ST, _DG}), "inet4": ({_A4}, {_ST, _DG}),
    "inet6": ({_A6}, {_ST, _DG}),
}


def family(platform):
    return "bsd" if platform in ("freebsd", "openbsd", "netbsd") else platform


def layout(platform, name):
    for key in (f"{platform}:{name}", f"{family(platform)}:{name}", f"any:{name}"):
        if key in LAYOUT:
            return LAYOUT[key]
    raise KeyError((platform, name))


# Windows volumes: device names where one is a textual prefix of another, resolved by the stubbed QueryDosDevice.
WIN_VOLUMES = {"\\Device\\HarddiskVolume1": "C:", "\\Device\\HarddiskVolume12": "X:",
               "\\Device\\HarddiskVolume20": "Y:", "\\Device\\HarddiskVolume2": "D:"}
WIN_VOLUME_ORDER = list(WIN_VOLUMES)


def win_device(salt, k):
    """Device holding the k-th kind of path (0 exe, 1 mapped files, 2/3 open files) of the process with this salt."""
    return WIN_VOLUME_ORDER[(salt + k) % len(WIN_VOLUME_ORDER)]


def win_drive(salt, k):
    return WIN_VOLUMES[win_device(salt, k)]


def fill(names, base, overrides=None, floats=FLOAT_SLOTS):
    """Record with pairwise distinct values per slot (ints, floats for time-like slots)."""
    d = collections.OrderedDict()
    for i, n in enumerate(names):
        v = base + 37 * (i + 1)
        if n in floats or ("idle" in names and floats):
            v = float(v) + 0.25
        d[n] = v
    if overrides:
        for k, v in overrides.items():
            if k in d:
                d[k] = v
    vals = [repr(v) for v in d.values()]
    assert len(set(vals)) == len(vals), ("record slots not pairwise distinct", d)
    return d


# ---------------------------------------------------------------------------------------------------
# call log
# ---------------------------------------------------------------------------------------------------

class Call:
    __slots__ = ("idx", "name", "args", "in_method", "method", "site", "probe", "recheck", "predicate",
                 "faultable", "fidx", "fired", "armed")

    def as_list(self):
        return [self.idx, self.name, _short(self.args), self.method, self.site, self.probe, self.recheck,
                self.fidx, self.fired]


def _short(x):
    s = repr(x)
    return s if len(s) <= 80 else s[:77] + "..."


class Stub:
    """Recorder + fault plan. Index space of faults = ordinal among *faultable* calls since arm()."""

    def __init__(self, world):
        self.world = world
        self.log = []
        self.armed = False
        self.fcount = 0
        self.plan_one = {}        # fidx -> fault dict
        self.plan_from = None     # (fidx, fault dict)
        self.fired = []

    def arm(self, one=None, from_=None):
        self.log = []
        self.armed = True
        self.fcount = 0
        self.plan_one = dict(one or {})
        self.plan_from = from_
        self.fired = []

    def disarm(self):
        self.armed = False

    # -- call-stack classification --------------------------------------------------------------
    def classify(self, c):
        w = self.world
        platname = w.platmodname
        PlatProcess = w.PlatProcess
        f = sys._getframe(2)
        c.in_method = False
        c.method = None      # outermost platform Process method on the stack (the method under test)
        c.site = None        # innermost platform frame (where the call was issued)
        c.probe = None
        c.recheck = None
        c.predicate = None
        while f is not None:
            g = f.f_globals.get("__name__")
            co = f.f_code.co_name
            if g == platname:
                if c.site is None and co not in ("wrapper",):
                    c.site = co
                if co in PROBE_FUNCS:
                    c.probe = co
                slf = f.f_locals.get("self")
                if PlatProcess is not None and isinstance(slf, PlatProcess):
                    c.in_method = True
                    if co != "wrapper":
                        c.method = co
            elif g == "psutil._psposix":
                if co == "pid_exists":
                    c.probe = "posix.pid_exists"
            elif g == "psutil":
                if co in FRONT_RECHECK:
                    c.recheck = co
                if co == "_send_signal" and c.name == "os.kill":
                    # the one OS call the front end issues itself on POSIX (its error handling has platform-conditional steps)
                    c.in_method = True
                    c.method = c.method or "_send_signal"
                    c.site = c.site or "_send_signal"
            elif g in ("genericpath", "posixpath") and co in PATH_PREDICATES:
                c.predicate = co
            f = f.f_back

    def enter(self, name, args, per_process):
        c = Call()
        c.idx = len(self.log)
        c.name = name
        c.args = args
        c.fidx = None
        c.fired = None
        c.armed = self.armed
        self.classify(c)
        c.faultable = bool(self.armed and c.in_method and not c.probe and not c.recheck and not c.predicate
                           and name not in SYSTEM_WIDE and per_process)
        fault = None
        if c.faultable:
            c.fidx = self.fcount
            self.fcount += 1
            fault = self.plan_one.get(c.fidx)
            if fault is None and self.plan_from is not None and c.fidx >= self.plan_from[0]:
                fault = self.plan_from[1]
        self.log.append(c)
        if fault is not None:
            c.fired = fault
            self.fired.append((c.fidx, name, fault))
            if self.world.gone_on_fire:
                self.world.state = "gone"
            raise self.world.make_oserror(fault, name)
        return c

    def faultable_calls(self):
        return [c for c in self.log if c.faultable]


# ---------------------------------------------------------------------------------------------------
# stub extension modules
# ---------------------------------------------------------------------------------------------------

class NativeModule(types.ModuleType):
    """Only the names the real extension defines exist (hasattr() feature probes stay truthful)."""

    def __getattr__(self, name):
        raise AttributeError(f"stub module {self.__name__!r} has no attribute {name!r}")


class TimeoutExpired(Exception):
    pass


class TimeoutAbandoned(Exception):
    pass


class VClock:
    def __init__(self, t0=5000.0):
        self.t = t0
        self.sleeps = []

    def now(self):
        return self.t

    def sleep(self, dt):
        self.sleeps.append(dt)
        self.t += dt


class TimeProxy:
    def __init__(self, clock, real):
        self._c = clock
        self._r = real

    def sleep(self, dt):
        return self._c.sleep(dt)

    def monotonic(self):
        return self._c.now()

    def time(self):
        return self._c.now()

    def __getattr__(self, n):
        return getattr(self._r, n)


class FakeGlob:
    """Stands in for `glob` inside the aix module: host /dev entries that cannot be stat()ed are a host artefact."""

    def __init__(self, real):
        self._real = real

    def glob(self, pattern, **kw):
        out = []
        for n in self._real.glob(pattern, **kw):
            try:
                os.stat(n)
            except OSError:
                continue
            out.append(n)
        return out

    def __getattr__(self, n):
        return getattr(self._real, n)


class FakeSubprocess:
    """Stands in for the `subprocess` module inside the sunos / aix platform modules."""
    PIPE = -1

    def __init__(self, world):
        self._w = world
        outer = self

        class Popen:
            def __init__(self, cmd, stdout=None, stderr=None, **kw):
                self.cmd = list(cmd)
                outer._w.stub.enter("subprocess", tuple(self.cmd), False)
                self.returncode = 0

            def communicate(self):
                return outer._w.subprocess_output(self.cmd), b""
        self.Popen = Popen


# ---------------------------------------------------------------------------------------------------
# the world: process under test + system tables + state
# ---------------------------------------------------------------------------------------------------

WORLD = None
REAL_FILE = "/etc/passwd"          # a regular file on the host (open_files -> isfile_strict)
SHELL = "/bin/sh"                  # exists + executable on the host (exe guessing)


class World:
    def __init__(self, platform):
        self.platform = platform
        self.cfg = PLATFORMS[platform]
        self.platmodname = "psutil." + self.cfg["mod"]
        self.PlatProcess = None
        self.stub = Stub(self)
        self.clock = VClock()
        self.consts = {}
        self.ps = None
        self.plat = None
        self.vk = None
        self.fs = None
        self.silent_exit = False        # scenario: a gone pid makes natives fail (ESRCH) or answer with nothing (SILENT_NATIVES)
        self.gone_on_fire = False       # scenario: the pid vanishes at the moment the first fault fires
        self.reset()

    # -- scenario ---------------------------------------------------------------------------------
    def reset(self, pid=4321, state="live", salt=1, pid0_listed=True, no_tty=False, tty_rdev=None,
              status=None, name="python3.9", zombie_code=None):
        self.pid = pid
        self.silent_exit = False
        self.zombie_code = zombie_code or ZOMBIE_CODES.get(self.platform, ["SZOMB"])[0]
        self.state = state              # what the layer's status probes see
        self.salt = salt
        self.pid0_listed = pid0_listed
        self.no_tty = no_tty
        self.tty_rdev = tty_rdev
        self.status_name = status
        self.name = name
        self.argv0 = None               # override of cmdline()[0]
        self.others = [1, 77]
        self.sink = []                  # setter calls delivered
        self.clock.sleeps[:] = []
        if self.fs is not None:
            self.build_fs()
        if self.plat is not None and hasattr(self.plat, "_pid_0_exists"):
            self.plat._pid_0_exists.cache_clear()

    # -- errors -------------------------------------------------------------------------------------
    def make_oserror(self, fault, where=""):
        e = OSError(fault["errno"], os.strerror(fault["errno"]) + f" (injected in {where})")
        if self.platform == "windows":
            e.winerror = fault.get("winerror")
        return e

    def esrch(self, where=""):
        return self.make_oserror(dict(errno=errno.ESRCH), where)

    # -- values -------------------------------------------------------------------------------------
    def const(self, name):
        return self.consts[name]

    def status_code(self):
        p = self.platform
        if self.state == "zombie":
            return self.consts[self.zombie_code]   # the way this platform's kernel marks a zombie
        if self.status_name:
            return self.consts[self.status_name]
        return self.consts["SACTIVE" if p == "aix" else "SSLEEP"]

    def ttynr(self):
        if self.no_tty:
            return self.consts.get("PRNODEV", 0xFFFFFFFF)
        if self.tty_rdev is not None:
            return self.tty_rdev
        return 777777

    def record(self, name, pid=None):
        """Ordered slot dict of a per-process / system record of this platform."""
        p = self.platform
        base = 100000 * self.salt + (0 if pid in (None, self.pid) else 5000 + 13 * pid)
        names = layout(p, name)
        ov = {}
        if name in ("proc_oneshot_info", "proc_kinfo_oneshot", "proc_basic_info"):
            ov = dict(ppid=1, status=self.status_code(), ttynr=self.ttynr(), name=self.name, oncpu=3, nice=5,
                      nlwp=2)
            if p in ("openbsd", "netbsd") and self.state == "zombie":
                # these two kernels report no start time for a zombie: p_ustart_sec/usec of its kinfo_proc2 are zero
                # (psutil/__init__.py, Process.__eq__: "Zombie processes on Open/NetBSD have a creation time of 0.0")
                ov["ctime"] = 0.0
            base += 1000
        elif name == "proc_pidtaskinfo_oneshot":
            base += 2000
        elif name == "proc_info":
            base += 3000
        elif name in ("proc_times", "proc_cpu_times"):
            base += 4000
        elif name == "proc_memory_info":
            base += 5000
        elif name in ("proc_io_counters",):
            base += 6000
        elif name == "proc_cred":
            base += 7000
        elif name in ("proc_num_ctx_switches", "query_process_thread"):
            base += 8000
        else:
            base += 9000 + 500 * (sum(map(ord, name)) % 17)
        return fill(names, base, ov)

    def threads_rows(self):
        b = 100000 * self.salt
        return [(self.pid if self.platform != "osx" else 1, b + 11.5, b + 12.5), (self.pid + 7, b + 13.5, b + 14.5)]

    def conn_rows(self, with_pid=None):
        """(fd, family, type, laddr, raddr, status[, pid]) rows; status codes are this platform's constants."""
        p = self.platform
        c = self.consts
        est = c.get("TCPS_ESTABLISHED", c.get("MIB_TCP_STATE_ESTAB"))
        lis = c.get("TCPS_LISTEN", c.get("MIB_TCP_STATE_LISTEN"))
        none = c["PSUTIL_CONN_NONE"]
        fd = (lambda n: -1) if p in ("windows", "sunos") else (lambda n: n)   # C hardcodes -1 there
        rows = [
            (fd(5), socket.AF_INET, socket.SOCK_STREAM, ("10.0.0.5", 40000 + self.salt), ("10.0.0.9", 443), est),
            (fd(6), socket.AF_INET6, socket.SOCK_STREAM, ("::1", 8080), (), lis),
            (fd(7), socket.AF_INET, socket.SOCK_DGRAM, ("0.0.0.0", 53), (), none),
        ]
        if p not in ("windows", "sunos"):
            rows.append((fd(8), socket.AF_UNIX, socket.SOCK_STREAM, "/tmp/sock.a", "", none))
        if with_pid is not None:
            rows = [r + (with_pid,) for r in rows]
        return rows

    def cmdline(self):
        return [getattr(self, "argv0", None) or SHELL, "-c", "sleep %d" % self.salt]

    def environ(self):
        return {"HOME": "/root", "LANG": "C", "SALT": str(self.salt)}

    def environ_block(self):
        return "".join(f"{k}={v}\0" for k, v in self.environ().items()) + "\0"

    # -- natives ------------------------------------------------------------------------------------
    def native(self, modname, name, args, kwargs):
        per_process = bool(args) and args[0] == self.pid and name not in SYSTEM_WIDE
        c = self.stub.enter(name, args + tuple(sorted(kwargs.items())) if kwargs else args, per_process)
        h = getattr(self, "n_" + name, None)
        if h is None:
            raise NotImplementedError(f"platstub: no handler for native {modname}.{name}")
        if self.silent_exit and self.state == "gone" and args and args[0] == self.pid and self.pid != 0 \
                and name not in ("pid_exists", "check_pid_range"):
            # the process has exited for real: the natives that walk a system-wide table answer with an empty listing,
            # every other one fails the way the kernel does
            silent = SILENT_NATIVES.get(self.platform, {})
            if name in silent:
                return type(silent[name])(silent[name])
            raise self.esrch(name)
        return h(c, *args, **kwargs)

    def _probe_gate(self, c, pid):
        """A probe (is_zombie / pids / _pid_0_exists) asking about a pid that is gone -> ESRCH."""
        if c.probe and pid == self.pid and self.state == "gone":
            raise self.esrch(c.name)
        if pid == 0 and not self.pid0_listed and (c.probe or self.pid != 0):
            raise self.esrch(c.name)

    # generic
    def n_check_pid_range(self, c, pid):
        return None

    def n_set_debug(self, c, v):
        return None

    def n_getpagesize(self, c):
        return 4096

    def n_pids(self, c):
        ls = [1, 77]
        if self.pid0_listed:
            ls.insert(0, 0)
        if self.state != "gone" and self.pid not in ls and self.pid != 0:
            ls.append(self.pid)
        if self.state == "gone" and self.pid in ls and self.pid != 0:
            ls.remove(self.pid)
        return ls

    def n_pid_exists(self, c, pid):
        if pid == self.pid:
            return self.state != "gone"
        return pid in (0, 1, 77)

    def n_ppid_map(self, c):
        d = {0: 0, 1: 0, 77: 1}
        if self.state != "gone":
            d[self.pid] = 1 if self.pid else 0
        return d

    def n_boot_time(self, c):
        return 1600000000.0 + self.salt

    def n_cpu_count_logical(self, c):
        return 4

    def n_cpu_count_cores(self, c):
        return 2

    def n_getpriority(self, c, pid):
        return 5

    def n_setpriority(self, c, pid, value):
        self.sink.append(("setpriority", pid, value))

    # per-process: BSD / macOS
    def n_proc_oneshot_info(self, c, pid):
        self._probe_gate(c, pid)
        return tuple(self.record("proc_oneshot_info", pid).values())

    def n_proc_kinfo_oneshot(self, c, pid):
        self._probe_gate(c, pid)
        return tuple(self.record("proc_kinfo_oneshot", pid).values())

    def n_proc_pidtaskinfo_oneshot(self, c, pid):
        self._probe_gate(c, pid)
        return tuple(self.record("proc_pidtaskinfo_oneshot", pid).values())

    def n_proc_name(self, c, pid, *a):
        self._probe_gate(c, pid)
        return self.name

    def n_proc_exe(self, c, pid):
        if self.platform == "windows":
            return win_device(self.salt, 0) + "\\Windows\\notepad%d.exe" % self.salt
        return "/usr/local/bin/python3.9"

    def n_proc_cmdline(self, c, pid, **kw):
        return self.cmdline()

    def n_proc_args(self, c, pid):
        return self.cmdline()

    def n_proc_environ(self, c, pid, *a):
        if self.platform in ("osx", "windows"):
            return self.environ_block()
        return self.environ()

    def n_proc_cwd(self, c, pid):
        return "C:\\Users\\user%d\\" % self.salt if self.platform == "windows" else "/home/user%d" % self.salt

    def n_proc_threads(self, c, pid):
        return self.threads_rows()

    def n_proc_num_threads(self, c, pid):
        return 2

    def n_proc_num_fds(self, c, pid):
        return 7 + self.salt

    def n_proc_open_files(self, c, pid):
        if self.platform == "windows":
            return [win_device(self.salt, 2) + "\\Windows\\a.txt", win_device(self.salt, 3) + "\\b.log"]
        return [(REAL_FILE, 3), ("/nonexistent/gone", 4)]

    def n_proc_net_connections(self, c, pid, families, types):
        # both natives (arch/freebsd/proc_socks.c, arch/osx/proc.c) filter by the two sequences
        return [r for r in self.conn_rows() if r[1] in families and r[2] in types]

    def n_net_connections(self, c, *args):
        """freebsd: (families, types) system-wide; openbsd/windows: (pid, families, types); netbsd: (pid, kind);
        sunos/aix: (pid). Rows carry the owning pid as 7th slot; the C code filters by pid itself."""
        p = self.platform
        if p == "freebsd":
            pid, flt = -1, (set(args[0]), set(args[1]))
        else:
            pid = args[0]
            flt = None
            if p in ("openbsd", "windows"):
                flt = (set(args[1]), set(args[2]))
            elif p == "netbsd":
                flt = KIND_MAP[args[1]]
        if pid == -1:
            rows = self.conn_rows(with_pid=self.pid)
            rows.append((-1, socket.AF_INET, socket.SOCK_STREAM, ("9.9.9.9", 9), (), rows[1][5], 77))
        else:
            rows = self.conn_rows(with_pid=pid)
        if flt is not None:
            rows = [r for r in rows if r[1] in flt[0] and r[2] in flt[1]]
        return rows

    def n_proc_memory_uss(self, c, pid):
        return 4242 + self.salt

    def n_proc_cpu_affinity_get(self, c, pid):
        return 0b101 if self.platform == "windows" else [0, 2]

    def n_proc_cpu_affinity_set(self, c, pid, cpus):
        self.sink.append(("affinity", pid, cpus))

    def n_proc_getrlimit(self, c, pid, res):
        return (1024 + self.salt, 4096)

    def n_proc_setrlimit(self, c, pid, res, soft, hard):
        self.sink.append(("rlimit", pid, res, soft, hard))

    def n_proc_memory_maps(self, c, pid, *a):
        b = 100000 * self.salt
        if self.platform == "freebsd":
            return [("0x1000-0x2000", "r-x", "/lib/libc.so.7", b + 1, b + 2, b + 3, b + 4),
                    ("0x3000-0x4000", "rw-", "/lib/libc.so.7", b + 5, b + 6, b + 7, b + 8),
                    ("0x5000-0x6000", "rw-", "[heap]", b + 9, b + 10, b + 11, b + 12)]
        if self.platform == "sunos":
            return [(0x1000, 0x2000, "r-x", "a.out", b + 1, b + 2, b + 3),
                    (0x8000, 0x9000, "rw-", "[heap]", b + 4, b + 5, b + 6)]
        dev = win_device(self.salt, 1)
        return [(0x400000, "r", dev + "\\Windows\\n.dll", b + 1),
                (0x800000, "rw", dev + "\\Windows\\n.dll", b + 2)]

    # per-process: sunos / aix
    def n_proc_basic_info(self, c, pid, *a):
        return tuple(self.record("proc_basic_info", pid).values())

    def n_proc_name_and_args(self, c, pid, path):
        return (self.name, " ".join(self.cmdline()))

    def n_proc_cred(self, c, pid, *a):
        return tuple(self.record("proc_cred", pid).values())

    def n_proc_cpu_times(self, c, pid, *a):
        return tuple(self.record("proc_cpu_times", pid).values())

    def n_proc_cpu_num(self, c, pid, path):
        return 3

    def n_proc_num_ctx_switches(self, c, pid, *a):
        return tuple(self.record("proc_num_ctx_switches", pid).values())

    def n_query_process_thread(self, c, pid, tid, path):
        r = self.record("query_process_thread", pid)
        return tuple(v + tid for v in r.values())

    def n_proc_io_counters(self, c, pid):
        return tuple(self.record("proc_io_counters", pid).values())

    # per-process: windows
    def n_proc_info(self, c, pid):
        return tuple(self.record("proc_info", pid).values())

    def n_proc_times(self, c, pid):
        return tuple(self.record("proc_times", pid).values())

    def n_proc_memory_info(self, c, pid):
        return tuple(self.record("proc_memory_info", pid).values())

    def n_proc_username(self, c, pid):
        return ("DOMAIN%d" % self.salt, "user")

    def n_proc_priority_get(self, c, pid):
        return WINDOWS_CONSTS["NORMAL_PRIORITY_CLASS"]

    def n_proc_priority_set(self, c, pid, v):
        self.sink.append(("priority", pid, v))

    def n_proc_io_priority_get(self, c, pid):
        return 2

    def n_proc_io_priority_set(self, c, pid, v):
        self.sink.append(("iopriority", pid, v))

    def n_proc_is_suspended(self, c, pid):
        return False

    def n_proc_num_handles(self, c, pid):
        return 99 + self.salt

    def n_proc_kill(self, c, pid):
        self.sink.append(("kill", pid))

    def n_proc_suspend_or_resume(self, c, pid, flag):
        self.sink.append(("suspend", pid, flag))

    def n_proc_wait(self, c, pid, timeout):
        if self.state == "gone":
            return None
        raise self.consts["TimeoutExpired"]()

    def n_QueryDosDevice(self, c, raw):
        return WIN_VOLUMES.get(raw, "")

    # system tables
    def _sys(self, name, base_add=0):
        return tuple(fill(layout(self.platform, name), 50000 * self.salt + base_add).values())

    def n_virtual_mem(self, c):
        return self._sys("virtual_mem", 100)

    def n_swap_mem(self, c):
        return self._sys("swap_mem", 900)

    def n_swap_percent(self, c):
        return 12.5

    def n_cpu_times(self, c):
        return self._sys("cpu_times", 1700)

    def n_per_cpu_times(self, c):
        nm = "per_cpu_times" if self.platform in ("sunos", "aix", "windows") else "cpu_times"
        names = layout(self.platform, nm)
        return [tuple(float(v) for v in fill(names, 50000 * self.salt + 2500 + 400 * k).values()) for k in range(2)]

    def n_cpu_stats(self, c):
        return self._sys("cpu_stats", 3300)

    def n_cpu_freq(self, c, *a):
        if self.platform == "freebsd":
            return (2100 + self.salt, "2400/1000 2000/800 1200/500")
        if self.platform == "openbsd":
            return 2200 + self.salt
        if self.platform == "windows":
            return (2300 + self.salt, 3300)
        return (2400 + self.salt, 800, 3400)

    def n_cpu_topology(self, c):
        return ("<groups><group><children><group><cpu count=\"2\"></cpu></group><group><cpu count=\"2\"></cpu>"
                "</group></children></group></groups>\0\0")

    def n_disk_partitions(self, c, *a):
        return [("/dev/ada0p2", "/", "ufs", "rw,noatime"), ("none", "/proc", "procfs", "rw")]

    def n_disk_io_counters(self, c):
        names = layout(self.platform, "disk_io_counters")
        return {"disk0": tuple(fill(names, 50000 * self.salt + 4100, floats=()).values()),
                "disk1": tuple(fill(names, 50000 * self.salt + 4900, floats=()).values())}

    def n_disk_usage(self, c, path):
        return (10 ** 9 + self.salt, 4 * 10 ** 8)

    def n_disk_usage_used(self, c, path, used):
        return used

    def n_net_io_counters(self, c):
        names = layout(self.platform, "net_io_counters")
        return {"em0": tuple(fill(names, 50000 * self.salt + 5700).values()),
                "lo0": tuple(fill(names, 50000 * self.salt + 6500).values())}

    def n_net_if_stats(self, c):
        return {"em0": (True, 2, 1000, 1500), "lo0": (False, 0, 0, 16384)}

    def n_net_if_mtu(self, c, name):
        return 1500 if name == "em0" else 16384

    def n_net_if_flags(self, c, name):
        return ["up", "broadcast", "running"] if name == "em0" else ["up", "loopback"]

    def n_net_if_duplex_speed(self, c, name):
        return (2, 1000) if name == "em0" else (0, 0)

    def n_net_if_is_running(self, c, name):
        return name == "em0"

    net_if_addrs_rows = None

    def n_net_if_addrs(self, c):
        if self.net_if_addrs_rows is not None:
            return [tuple(r) for r in self.net_if_addrs_rows]
        af_link = -1 if self.platform == "windows" else self.posix_consts["AF_LINK"]
        sep = "-" if self.platform == "windows" else ":"
        return [("em0", socket.AF_INET, "192.168.1.10", "255.255.255.0", None, None),
                ("em0", af_link, sep.join(["00", "11", "22", "33", "44", "55"]), None, None, None)]

    def n_users(self, c):
        p = self.platform
        if p == "windows":
            return [("alice", "10.1.1.1", 1600000100.0 + self.salt)]
        if p in ("sunos", "aix"):
            return [("alice", "pts/1", ":0", 1600000100.0 + self.salt, True, 501),
                    ("reboot", "~", "", 1600000000.0, False, 0)]
        return [("alice", "ttyv0", "host.example", 1600000100.0 + self.salt, -1 if p == "openbsd" else 501),
                ("reboot", "~", "", 1600000000.0, -1 if p == "openbsd" else 0)]

    def n_sensors_battery(self, c):
        if self.platform == "windows":
            return (0, 1, 77, 3600 + self.salt)
        return (77, 120 + self.salt, 0)

    def n_sensors_cpu_temperature(self, c, cpu):
        return (40 + cpu, 100)

    def n_getloadavg(self, c):
        return (0.514, 0.25, 0.125)

    def n_init_loadavg_counter(self, c):
        return None

    def n_winservice_enumerate(self, c):
        return [("svcA", "Service A"), ("svcB", "Service B")]

    def n_winservice_query_config(self, c, name):
        return ("Service " + name[-1], "C:\\svc.exe -k", "LocalSystem", "automatic")

    def n_winservice_query_status(self, c, name):
        return ("running", 77)

    def n_winservice_query_descr(self, c, name):
        return "descr of " + name

    # -- OS level: kill / waitpid / procfs / subprocess -----------------------------------------------
    def sys_kill(self, pid, sig):
        self.stub.enter("os.kill", (pid, sig), pid == self.pid)
        if pid == self.pid and self.state == "gone":
            raise ProcessLookupError(errno.ESRCH, "No such process")
        self.sink.append(("kill", pid, sig))

    def sys_waitpid(self, pid, flags):
        self.stub.enter("os.waitpid", (pid, flags), pid == self.pid)
        raise ChildProcessError(errno.ECHILD, "No child processes")

    def fs_rule(self, kind, path):
        """vkernel rule: every access under the /proc mount is logged as a call `fs:<kind>`."""
        m = re.match(r"^/proc/(\d+)(/|$)", path)
        pid = int(m.group(1)) if m else None
        c = self.stub.enter("fs:" + kind, (path,), pid == self.pid)   # raises the planned fault
        if pid is not None and pid == self.pid and self.state == "gone" and (c.probe or c.predicate or self.silent_exit):
            return OSError(errno.ENOENT, os.strerror(errno.ENOENT), path)
        if pid == 0 and not self.pid0_listed and (c.probe or self.pid != 0):
            return OSError(errno.ENOENT, os.strerror(errno.ENOENT), path)
        return None

    def build_fs(self):
        from . import vkernel
        fs = self.fs
        fs.files.clear()
        L, F = vkernel.L, vkernel.F
        p = self.platform
        pids = [1, 77]
        if self.pid0_listed:
            pids.insert(0, 0)
        if self.pid not in pids:
            pids.append(self.pid)       # /proc/0 unlisted: fs_rule answers ENOENT for it
        for pid in pids:
            fs.put(f"{pid}/psinfo", F(b"psinfo"))
            if p == "sunos":
                fs.put(f"{pid}/path/a.out", L("/usr/bin/python3.9"))
                fs.put(f"{pid}/path/cwd", L("/home/user%d" % self.salt))
                for n in (0, 1, 2):
                    fs.put(f"{pid}/path/{n}", L("/dev/pts/3"))
                    fs.put(f"{pid}/fd/{n}", F(b""))
                fs.put(f"{pid}/fd/3", F(b""))
                fs.put(f"{pid}/path/3", L(REAL_FILE))
                fs.put(f"{pid}/lwp/1/lwpstatus", F(b""))
                fs.put(f"{pid}/lwp/2/lwpstatus", F(b""))
            elif p == "aix":
                fs.put(f"{pid}/cwd", L("/home/user%d/" % self.salt))
                for n in (0, 1, 2, 5):
                    fs.put(f"{pid}/fd/{n}", F(b""))
            elif p == "netbsd":
                fs.put(f"{pid}/exe", L("/usr/pkg/bin/python3.9"))
        listed = [str(x) for x in pids if x != 0 or self.pid0_listed]
        if p == "netbsd":
            listed += ["meminfo", "stat"]
        fs.files[""] = vkernel.D(listed)      # what listdir("/proc") shows (an unlisted PID 0 stays queryable)
        if p == "netbsd":
            fs.put("meminfo", F(b"MemTotal: 100 kB\nBuffers:   %d kB\nMemShared: %d kB\n"
                                % (640 + self.salt, 320 + self.salt)))
            fs.put("stat", F(b"cpu 1 2 3 4\nintr %d 1 2\nctxt 5\n" % (91000 + self.salt)))

    def subprocess_output(self, cmd):
        c = " ".join(cmd)
        if "swap" in cmd:
            return (b"swapfile             dev    swaplo   blocks     free\n"
                    b"/dev/zvol/dsk/rpool/swap 85,1  8 4194296 2097148\n")
        if cmd[0] == "pfiles":
            if self.state == "gone":
                return b""
            return (b"%d:\t/usr/bin/python\n  Current rlimit: 256 file descriptors\n"
                    b"   3: S_IFSOCK mode:0666 dev:556,0 ino:1234 uid:0 gid:0 size:0\n"
                    b"      O_RDWR\n\tSOCK_STREAM\n\tSO_REUSEADDR\n\tsockname: AF_UNIX /tmp/sock.b\n" % self.pid)
        if "procfiles" in c:
            return (b"%d : /usr/bin/python\n  Current rlimit: 2000 file descriptors\n"
                    b"   3: S_IFREG mode:0644 dev:10,5 ino:4103 uid:0 gid:0 rdev:0,0 O_RDONLY size:123  "
                    b"name:/etc/passwd \n"
                    b"   4: S_IFREG mode:0644 dev:10,5 ino:4104 uid:0 gid:0 rdev:0,0 O_RDONLY size:1  "
                    b"name:Cannot be retrieved\n"
                    b"   5: S_IFCHR mode:0620 dev:10,4 ino:99 uid:0 gid:0 rdev:28,1 O_RDWR name:/dev/pts/1\n"
                    % self.pid)
        if cmd[0] == "lsdev":
            return b"proc0 Available 00-00 Processor\nproc4 Available 00-04 Processor\n"
        if "entstat" in c:
            return b"ETHERNET STATISTICS\nMedia Speed Running: 1000 Mbps Full Duplex\n"
        return b""


# ---------------------------------------------------------------------------------------------------
# loader
# ---------------------------------------------------------------------------------------------------

def _overlay_version():
    ov = os.environ.get("VERIF_OVERLAY")
    cand = [os.path.join(ov, "psutil", "__init__.py")] if ov else []
    cand.append(os.path.join(os.environ.get("VERIF_REPO", "/repo"), "psutil", "__init__.py"))
    for p in cand:
        try:
            with open(p) as f:
                m = re.search(r'^__version__ = "(\d+)\.(\d+)\.(\d+)"', f.read(), re.M)
            if m:
                return int("".join(m.groups()))
        except OSError:
            continue
    return 700


def _mkfunc(world, modname, name):
    def f(*args, **kwargs):
        return world.native(modname, name, args, kwargs)
    f.__name__ = name
    f.__qualname__ = name
    return f


def load(platform):
    """Become `platform` (once per interpreter) and return the World."""
    global WORLD
    if WORLD is not None:
        if WORLD.platform != platform:
            raise RuntimeError(f"this interpreter already is {WORLD.platform}, cannot become {platform}")
        return WORLD
    if "psutil" in sys.modules:
        raise RuntimeError("psutil was imported before platstub.load()")
    import importlib
    for m in PRE_IMPORT:
        try:
            importlib.import_module(m)
        except ImportError:
            pass
    from . import vkernel      # captures the real os functions before anything is patched
    cfg = PLATFORMS[platform]
    w = World(platform)
    WORLD = w

    # constants: pairwise distinct integers
    consts = {}
    if platform == "windows":
        consts.update(WINDOWS_CONSTS)
        consts["TimeoutExpired"] = TimeoutExpired
        consts["TimeoutAbandoned"] = TimeoutAbandoned
    else:
        for i, n in enumerate(dict.fromkeys(CONST_NAMES[platform])):
            consts[n] = 201 + 3 * i
        consts["PSUTIL_CONN_NONE"] = 128
    consts["version"] = _overlay_version()
    w.consts = consts
    if platform != "windows":    # Win32 values are the documented ones (distinct within each constant family)
        ints = [v for k, v in consts.items() if isinstance(v, int) and k != "version"]
        assert len(set(ints)) == len(ints), "stub constants are not pairwise distinct"

    cext = NativeModule("psutil." + cfg["cext"])
    cext.__file__ = f"<platstub {cfg['cext']}>"
    for k, v in consts.items():
        setattr(cext, k, v)
    for n in FUNCS[platform]:
        setattr(cext, n, _mkfunc(w, cfg["cext"], n))
    sys.modules[cext.__name__] = cext
    w.cext = cext

    posix = None
    if platform != "windows":
        posix = NativeModule("psutil._psutil_posix")
        posix.__file__ = "<platstub _psutil_posix>"
        w.posix_consts = {"AF_LINK": 18}
        if platform == "freebsd":
            for i, n in enumerate(FREEBSD_RLIMITS):
                w.posix_consts[n] = i if n != "RLIM_INFINITY" else 2 ** 63 - 1
        for k, v in w.posix_consts.items():
            setattr(posix, k, v)
        names = list(POSIX_FUNCS)
        if platform in ("freebsd", "openbsd", "netbsd", "osx"):
            names += POSIX_FUNCS_BSD_OSX
        for n in names:
            setattr(posix, n, _mkfunc(w, "_psutil_posix", n))
        sys.modules[posix.__name__] = posix
    w.posix = posix

    # OS-level interposition (kill / waitpid), procfs through vkernel
    vkernel.install()
    w.vk = vkernel.VK(root="/proc")
    w.fs = vkernel.MemFS({})
    w.vk.mount("/proc", w.fs)
    w.vk.rules.append(w.fs_rule)
    w.build_fs()
    os.kill = w.sys_kill
    os.waitpid = w.sys_waitpid

    # become the platform, import the real package from the overlay
    real_platform, real_osname = sys.platform, os.name
    sys.platform = cfg["sysplat"]
    os.name = cfg["osname"]
    w.real_platform = (real_platform, real_osname)
    with w.vk:
        import psutil
    ov = os.environ.get("VERIF_OVERLAY")
    if ov and not psutil.__file__.startswith(ov):
        raise RuntimeError(f"psutil not imported from the overlay: {psutil.__file__}")
    w.ps = psutil
    w.plat = sys.modules[w.platmodname]
    if psutil._psplatform is not w.plat:
        raise RuntimeError(f"dispatch picked {psutil._psplatform.__name__}, wanted {w.platmodname}")
    w.PlatProcess = w.plat.Process
    for mod in (sys.modules.get("psutil._psutil_" + x) for x in ("bsd", "osx", "sunos", "aix", "windows", "posix")):
        if mod is not None and not isinstance(mod, NativeModule):
            raise RuntimeError(f"a real extension module leaked in: {mod!r}")

    # virtual time / canned subprocess for the platform module
    import time as _time
    if hasattr(w.plat, "time"):
        w.plat.time = TimeProxy(w.clock, _time)
    if hasattr(w.plat, "subprocess"):
        w.plat.subprocess = FakeSubprocess(w)
    if platform == "aix" and hasattr(w.plat, "glob"):
        import glob as _glob
        w.plat.glob = FakeGlob(_glob)
    px = sys.modules.get("psutil._psposix")
    if px is not None:
        d = list(px.wait_pid.__defaults__)
        # (timeout, proc_name, _waitpid, _timer, _min, _sleep, _pid_exists)
        d[3] = w.clock.now
        d[5] = w.clock.sleep
        px.wait_pid.__defaults__ = tuple(d)
    return w
