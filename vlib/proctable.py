"""ProcTable - process-table model that is both the simulated kernel state served through vkernel
and the oracle's ground truth (monitors compare against the values here, never a re-parse).

Formats follow fs/proc (array.c, base.c) and were compared with this sandbox's live kernel.
"""
import errno
import os
import signal

from .vkernel import D, F, L, oserr

CLK_TCK = os.sysconf("SC_CLK_TCK")

STATE_NAMES = {
    "R": "running", "S": "sleeping", "D": "disk sleep", "T": "stopped", "t": "tracing stop",
    "X": "dead", "Z": "zombie", "P": "parked", "I": "idle", "K": "wakekill", "W": "waking",
    "x": "dead",
}


class Thread:
    def __init__(self, tid, comm=b"thr", utime=0, stime=0, state="S"):
        self.tid = tid
        self.comm = comm
        self.utime = utime
        self.stime = stime
        self.state = state


class Proc:
    def __init__(self, pid, inc, start, ppid=1, comm=b"proc", **kw):
        self.pid = pid
        self.inc = inc              # incarnation id (unique per spawn)
        self.start = start          # starttime in clock ticks since boot
        self.ppid = ppid
        self.comm = comm
        self.state = "S"
        self.zombie = False
        self.uids = (1000, 1000, 1000, 1000)
        self.gids = (1000, 1000, 1000, 1000)
        self.threads = None         # list[Thread]; None -> single thread tid=pid
        self.utime = 0
        self.stime = 0
        self.cutime = 0
        self.cstime = 0
        self.blkio = 0
        self.tty_nr = 0
        self.processor = 0
        self.nice = 0
        self.vctx = 0
        self.nvctx = 0
        self.pgrp = pid
        self.session = pid
        self.cmdline = b"/bin/proc\0"
        self.environ = b"HOME=/\0"
        self.exe = "/bin/proc"      # None -> readlink ENOENT (kernel withholds)
        self.cwd = "/"
        self.fds = {}               # fd -> dict(target=, pos=, flags=, gone=False)
        self.statm = (100, 50, 20, 5, 0, 30, 0)
        self.io = dict(rchar=1, wchar=2, syscr=3, syscw=4, read_bytes=5, write_bytes=6,
                       cancelled_write_bytes=7)
        self.smaps = b""
        self.smaps_rollup = None    # bytes | None (-> ENOENT) | int errno (raised at open)
        self.ioprio = (0, 0)
        self.affinity = None        # list of cpus; None -> all
        self.rlimits = {}
        self.cpus_allowed_list = None
        self.stat_nfields = 52      # fields in stat line (old kernels have fewer)
        self.status_extra = b""
        self.exit_status = None     # wait status once exited
        self.overrides = {}         # relname -> node (takes precedence)
        self.raw_stat = None        # callable(proc) -> bytes overriding stat rendering
        self.raw_status = None
        self.__dict__.update(kw)

    def thread_list(self):
        if self.threads is None:
            return [Thread(self.pid, self.comm, self.utime, self.stime, self.state)]
        return self.threads


def escape_comm_status(comm):
    # fs/proc/array.c: seq_escape_str(m, tcomm, ESCAPE_SPACE | ESCAPE_SPECIAL, "\n\\")
    return comm.replace(b"\\", b"\\\\").replace(b"\n", b"\\n")


def render_stat(p, tid=None, table=None):
    if p.raw_stat is not None:
        return p.raw_stat(p)
    if tid is None or tid == p.pid and p.threads is None:
        ident, comm, utime, stime, state = p.pid, p.comm, p.utime, p.stime, p.state
    else:
        th = next(t for t in p.thread_list() if t.tid == tid)
        ident, comm, utime, stime, state = th.tid, th.comm, th.utime, th.stime, th.state
    if p.zombie:
        state = "Z"
    nthreads = len(p.thread_list())
    f = [
        state, p.ppid, p.pgrp, p.session, p.tty_nr, -1, 4194304, 84, 0, 0, 0,
        utime, stime, p.cutime, p.cstime, 20, p.nice, nthreads, 0, p.start,
        0 if p.zombie else p.statm[0] * 4096, 0 if p.zombie else p.statm[1], 18446744073709551615,
        0, 0, 0, 0, 0, 0, 0, 0, 0, 0, 0, 0, 17, p.processor, 0, 0, p.blkio, 0, 0, 0, 0, 0, 0, 0, 0, 0,
        0,
    ]
    nf = max(3, p.stat_nfields) - 2
    f = f[:nf]
    return b"%d (%s) " % (ident, comm) + " ".join(map(str, f)).encode() + b"\n"


def render_status(p, tid=None):
    if p.raw_status is not None:
        return p.raw_status(p)
    comm, ident = p.comm, p.pid
    state = p.state
    if tid is not None and tid != p.pid:
        th = next(t for t in p.thread_list() if t.tid == tid)
        comm, ident, state = th.comm, th.tid, th.state
    if p.zombie:
        state = "Z"
    out = []
    if getattr(p, "status_name", None) is not None and (tid is None or tid == p.pid):
        comm = p.status_name
    out.append(b"Name:\t" + escape_comm_status(comm) + b"\n")
    out.append(b"Umask:\t0022\n")
    out.append(f"State:\t{state} ({STATE_NAMES.get(state, 'unknown')})\n".encode())
    out.append(f"Tgid:\t{p.pid}\nNgid:\t0\nPid:\t{ident}\nPPid:\t{p.ppid}\nTracerPid:\t0\n".encode())
    out.append(("Uid:\t%d\t%d\t%d\t%d\n" % tuple(p.uids)).encode())
    out.append(("Gid:\t%d\t%d\t%d\t%d\n" % tuple(p.gids)).encode())
    out.append(f"FDSize:\t{0 if p.zombie else 64}\nGroups:\t \n".encode())
    out.append(f"NStgid:\t{p.pid}\nNSpid:\t{ident}\nNSpgid:\t{p.pgrp}\nNSsid:\t{p.session}\nKthread:\t0\n".encode())
    if not p.zombie:
        out.append(b"VmPeak:\t    2640 kB\nVmSize:\t    2640 kB\nVmRSS:\t    1256 kB\n")
    out.append(f"Threads:\t{len(p.thread_list())}\n".encode())
    out.append(b"SigQ:\t0/257850\nSigPnd:\t0000000000000000\nCapEff:\t000001fffeffffff\n")
    out.append(p.status_extra)
    cal = p.cpus_allowed_list
    if cal is None:
        cal = "0-15"
    out.append(f"Cpus_allowed:\tffff\nCpus_allowed_list:\t{cal}\n".encode())
    out.append(b"Mems_allowed:\t1\nMems_allowed_list:\t0\n")
    out.append(f"voluntary_ctxt_switches:\t{p.vctx}\nnonvoluntary_ctxt_switches:\t{p.nvctx}\n".encode())
    return b"".join(out)


def render_io(p):
    if isinstance(p.io, (bytes, bytearray)):
        return bytes(p.io)
    if p.zombie:
        return b"".join(f"{k}: 0\n".encode() for k in p.io)
    return b"".join(f"{k}: {v}\n".encode() for k, v in p.io.items())


class ProcTable:
    """The simulated process table + syscall sinks."""

    def __init__(self, btime=1_700_000_000, ncpu=4, self_pid=2):
        self.procs = {}
        self.next_inc = 1
        self.btime = btime
        self.ncpu = ncpu
        self.self_pid = self_pid       # who the harness pretends to be (parent of "children")
        self.rootfiles = {}            # name -> bytes | callable | node
        self.deny_kill = set()
        self.deny_native = {}          # name -> errno for every call
        self.history = {}              # inc -> dict(pid, spawned_at, exited...)
        self.cpu_lines = None          # optional override for /stat cpu lines (bytes)
        self.listing_hook = None       # callable(table) invoked when the root is listed
        self.reparent = True           # children of an exiting process go to init (kernel behaviour)

    # -- table operations -------------------------------------------------------------
    def spawn(self, pid, start, ppid=1, comm=b"proc", **kw):
        assert pid not in self.procs, pid
        p = Proc(pid, self.next_inc, start, ppid, comm, **kw)
        self.next_inc += 1
        self.procs[pid] = p
        self.history[p.inc] = p
        return p

    def exit(self, pid, status=0):
        """Process terminates -> zombie until reaped."""
        p = self.procs[pid]
        p.zombie = True
        p.exit_status = status
        self._reparent(pid)
        return p

    def _reparent(self, pid):
        # the kernel re-parents the children of an exiting process to init
        if self.reparent:
            for q in list(self.procs.values()):
                if q.ppid == pid and q.pid != pid:
                    q.ppid = 1 if q.pid != 1 else 0       # (init itself has no parent to be handed to)

    def reap(self, pid):
        return self.procs.pop(pid)

    def remove(self, pid):
        """exit + reap at once (process vanishes)."""
        self._reparent(pid)
        return self.procs.pop(pid, None)

    def owner_of(self, ident):
        """-> (proc, tid) for a pid or a thread id."""
        p = self.procs.get(ident)
        if p is not None:
            return p, None
        for q in list(self.procs.values()):
            if q.threads:
                for t in q.threads:
                    if t.tid == ident:
                        return q, ident
        return None, None

    def alive_inc(self, inc):
        p = self.history.get(inc)
        return p is not None and self.procs.get(p.pid) is p

    # -- rendering of root files ---------------------------------------------------------
    def render_root_stat(self):
        if self.cpu_lines is not None:
            cpu = self.cpu_lines() if callable(self.cpu_lines) else self.cpu_lines
        else:
            cpu = b"cpu  10 1 10 100 1 0 0 0 0 0\n" + b"".join(
                b"cpu%d 10 1 10 100 1 0 0 0 0 0\n" % i for i in range(self.ncpu))
        return cpu + b"intr 1000 0 0\nctxt 5000\nbtime %d\nprocesses 100\nprocs_running 1\n" \
                     b"procs_blocked 0\nsoftirq 300 1 2\n" % self.btime

    def _rootnames(self):
        return sorted({k.split("/", 1)[0] for k in self.rootfiles} | {"stat", "self"})

    # -- provider -----------------------------------------------------------------------
    def resolve(self, parts):
        if not parts:
            if self.listing_hook is not None:
                def names():
                    self.listing_hook(self)
                    return [str(p) for p in list(self.procs)] + self._rootnames()
                return D(names)
            return D([str(p) for p in list(self.procs)] + self._rootnames())
        head = parts[0]
        if not head.isdigit():
            rel = "/".join(parts)
            if rel in self.rootfiles:
                n = self.rootfiles[rel]
                if isinstance(n, (F, D, L)):
                    return n
                return F(n)
            if head == "stat" and len(parts) == 1:
                return F(self.render_root_stat)
            pre = rel + "/"
            names = sorted({k[len(pre):].split("/", 1)[0] for k in self.rootfiles if k.startswith(pre)})
            if names:
                return D(names)
            return None
        ident = int(head)
        p, tid = self.owner_of(ident)
        if p is None:
            return None
        return self._resolve_proc(p, tid, parts[1:])

    def _gone(self, p):
        def check():
            if self.procs.get(p.pid) is not p:
                return oserr(errno.ESRCH)
            return None
        return check

    def _resolve_proc(self, p, tid, rest):
        rel = "/".join(rest)
        if rel in p.overrides:
            n = p.overrides[rel]
            return n() if callable(n) else n
        gone = self._gone(p)
        if getattr(p, "half_gone", False):
            # non-atomic teardown window (upstream issue #2418): /proc/<pid> still resolves, nothing inside does
            return D([]) if not rest else None
        if not rest:
            return D(["stat", "status", "cmdline", "environ", "statm", "io", "smaps", "smaps_rollup",
                      "exe", "cwd", "fd", "fdinfo", "task", "limits"])
        name = rest[0]
        if len(rest) == 1:
            if name == "stat":
                return F(lambda: render_stat(p, tid), gone)
            if name == "status":
                return F(lambda: render_status(p, tid), gone)
            if name == "cmdline":
                return F(lambda: b"" if p.zombie else p.cmdline, gone)
            if name == "environ":
                if p.zombie or getattr(p, "no_mm", False):
                    # a task without an address space (zombie; kernel thread on kernels like the 6.18 of this sandbox,
                    # where older ones served an empty file): the open itself answers ESRCH
                    raise oserr(errno.ESRCH)
                return F(lambda: p.environ, gone)
            if name == "statm":
                return F(lambda: (b"0 0 0 0 0 0 0\n" if p.zombie else
                                  (" ".join(map(str, p.statm)) + "\n").encode()), gone)
            if name == "io":
                return F(lambda: render_io(p), gone)
            if name == "smaps":
                return F(lambda: b"" if p.zombie else p.smaps, gone)
            if name == "smaps_rollup":
                if p.zombie:
                    raise oserr(errno.ESRCH)
                r = p.smaps_rollup
                if r is None:
                    return None
                if isinstance(r, int):
                    raise oserr(r)
                if isinstance(r, tuple) and r[0] == "read_err":
                    # opens fine, fails at read time (the target called exec() or exited in between)
                    return F(b"", lambda: gone() or oserr(r[1]))
                return F(lambda: p.smaps_rollup, gone)
            if name in ("exe", "cwd"):
                t = getattr(p, name)
                if p.zombie or t is None:
                    return None
                if isinstance(t, OSError):
                    raise t
                return L(t)
            if name == "fd":
                # Linux >= 6.2: st_size of /proc/<pid>/fd = descriptors allocated in the table, which includes numbers a
                # system call in progress has reserved but not installed yet (those are not listed)
                return D(lambda: [] if p.zombie else [str(fd) for fd in p.fds],
                         size=lambda: 0 if p.zombie else len(p.fds) + getattr(p, "fd_reserved", 0))
            if name == "fdinfo":
                return D(lambda: [] if p.zombie else [str(fd) for fd in p.fds])
            if name == "task":
                return D(lambda: [str(t.tid) for t in p.thread_list()])
            if name == "limits":
                return F(b"Limit                     Soft Limit           Hard Limit           Units\n")
            return None
        if name == "fd" and len(rest) == 2 and rest[1].isdigit():
            fd = p.fds.get(int(rest[1]))
            if fd is None or p.zombie or fd.get("gone"):
                return None
            if fd.get("err"):
                return L(fd["target"], err=oserr(fd["err"]))
            return L(fd["target"])
        if name == "fdinfo" and len(rest) == 2 and rest[1].isdigit():
            fd = p.fds.get(int(rest[1]))
            if fd is None or p.zombie or fd.get("gone") or fd.get("info_gone"):
                return None
            fdnum = int(rest[1])

            def fd_gone():
                # the content is produced at read time: a descriptor closed after the open answers ENOENT (seq_show)
                e = gone()
                if e is None and p.fds.get(fdnum) is not fd:
                    return oserr(errno.ENOENT)
                return e
            raw = fd.get("info_raw")
            if raw is not None:
                return F(raw, fd_gone)
            return F(b"pos:\t%d\nflags:\t0%o\nmnt_id:\t10\nino:\t%d\n" % (
                fd.get("pos", 0), fd.get("flags", 0), fd.get("ino", 100)), fd_gone)
        if name == "task":
            if not rest[1].isdigit():
                return None
            t = int(rest[1])
            ths = {th.tid: th for th in p.thread_list()}
            if t not in ths or ths[t].__dict__.get("gone"):
                return None
            if len(rest) == 2:
                return D(["stat", "status", "comm"])
            def thread_gone():
                # the thread ended between open() and read(): ESRCH, like a process that did
                e = gone()
                if e is None and t not in {th.tid for th in p.thread_list()}:
                    e = oserr(errno.ESRCH)
                return e
            if rest[2] == "stat":
                return F(lambda: render_stat(p, t), thread_gone)
            if rest[2] == "status":
                return F(lambda: render_status(p, t), thread_gone)
            return None
        return None

    # -- syscall sinks -----------------------------------------------------------------------
    def _target(self, vk, call, ident, args, allow_tid=True):
        """Common sink prologue: log, locate. Returns proc."""
        p, tid = self.owner_of(ident)
        if p is None or (tid is not None and not allow_tid):
            raise oserr(errno.ESRCH)
        return p

    def sys_kill(self, vk, pid, sig):
        if not -2**31 <= pid < 2**31:
            # os.kill() converts to pid_t (C int) before the syscall
            raise OverflowError("signed integer is greater than maximum" if pid > 0 else
                                "signed integer is less than minimum")
        vk.access("kill", f"kill({pid},{int(sig)})")
        if getattr(self, "foreign", False):
            # the procfs on display belongs to another system (PROCFS_PATH=/host/proc): none of its pids exists for our syscalls
            raise ProcessLookupError(errno.ESRCH, os.strerror(errno.ESRCH))
        if not 0 <= int(sig) <= 64:
            # valid_signal() is checked before the target is looked up
            raise OSError(errno.EINVAL, os.strerror(errno.EINVAL))
        if pid <= 0:
            vk.breaches.append(("kill_nonpositive_pid", pid, int(sig)))
            vk.events.append(("kill", pid, int(sig), None))
            return None
        p, tid = self.owner_of(pid)
        if p is None or getattr(p, "half_gone", False):
            raise ProcessLookupError(errno.ESRCH, os.strerror(errno.ESRCH))
        if pid in self.deny_kill or p.pid in self.deny_kill:
            # another user's process: kill(2) refuses the pid and every thread id of it alike
            raise PermissionError(errno.EPERM, os.strerror(errno.EPERM))
        vk.events.append(("kill", pid, int(sig), p.inc))
        # job control is visible in /proc: a stopped process says "T" until it is continued
        if int(sig) == 19 and p.state not in ("Z", "X", "T"):
            p.state_before_stop = p.state
            p.state = "T"
        elif int(sig) == 18 and p.state == "T":
            p.state = getattr(p, "state_before_stop", "S")
        return None

    def sys_waitpid(self, vk, pid, flags):
        vk.access("waitpid", f"waitpid({pid},{flags})")
        if getattr(self, "foreign", False):
            raise ChildProcessError(errno.ECHILD, os.strerror(errno.ECHILD))
        hook = getattr(self, "waitpid_hook", None)
        if hook is not None:
            r = hook(pid, flags)
            if r is not None:
                if isinstance(r, BaseException):
                    raise r
                return r
        p = self.procs.get(pid)
        if p is None or p.ppid != self.self_pid:
            raise ChildProcessError(errno.ECHILD, os.strerror(errno.ECHILD))
        while True:
            if p.zombie:
                self.reap(pid)
                vk.events.append(("reaped", pid, p.exit_status, p.inc))
                return (pid, p.exit_status)
            if flags & os.WNOHANG:
                return (0, 0)
            # blocking wait in virtual time: run the clock to the next timer
            clock = vk.clock
            if clock is None or not clock.timers:
                raise RuntimeError("blocking waitpid would never return in the simulation")
            t = clock.timers[0][0]
            clock.advance(max(0.0, t - clock.t))

    def _nat(self, vk, name, pid, args):
        vk.access("native:" + name, f"{name}({pid})")
        err = self.deny_native.get(name)
        if err:
            raise oserr(err)
        if getattr(self, "foreign", False):
            raise oserr(errno.ESRCH)
        if pid == 0:
            # setpriority/getpriority(PRIO_PROCESS, 0), ioprio_*(who=0), sched_*affinity(0), prlimit(0): "the caller"
            return self.procs[self.self_pid]
        p, tid = self.owner_of(pid)
        if p is None or getattr(p, "half_gone", False):
            raise oserr(errno.ESRCH)
        return p

    def nat_getpriority(self, vk, pid):
        p = self._nat(vk, "getpriority", pid, ())
        return p.nice

    def nat_setpriority(self, vk, pid, value):
        p = self._nat(vk, "setpriority", pid, (value,))
        vk.events.append(("setpriority", pid or p.pid, value, p.inc))
        p.nice = value

    def nat_proc_ioprio_get(self, vk, pid):
        p = self._nat(vk, "proc_ioprio_get", pid, ())
        return p.ioprio

    def nat_proc_ioprio_set(self, vk, pid, ioclass, value):
        p = self._nat(vk, "proc_ioprio_set", pid, (ioclass, value))
        vk.events.append(("ioprio_set", pid or p.pid, (int(ioclass), int(value)), p.inc))
        p.ioprio = (int(ioclass), int(value))

    def nat_proc_cpu_affinity_get(self, vk, pid):
        p = self._nat(vk, "proc_cpu_affinity_get", pid, ())
        return list(p.affinity) if p.affinity is not None else list(range(self.ncpu))

    def nat_proc_cpu_affinity_set(self, vk, pid, cpus):
        p = self._nat(vk, "proc_cpu_affinity_set", pid, (cpus,))
        cpus = list(cpus)
        ok = [c for c in cpus if 0 <= c < self.ncpu]
        if not ok:
            raise oserr(errno.EINVAL)
        if getattr(p, "affinity_refused", False):
            # a cpuset / a per-CPU kernel thread (PF_NO_SETAFFINITY): the kernel refuses perfectly valid CPU numbers
            raise oserr(errno.EINVAL)
        vk.events.append(("affinity_set", pid or p.pid, tuple(sorted(cpus)), p.inc))
        p.affinity = sorted(set(ok))

    def nat_prlimit(self, vk, pid, res, limits=None):
        p = self._nat(vk, "prlimit", pid, (res, limits))
        old = p.rlimits.get(res, (-1, -1))
        if limits is not None:
            vk.events.append(("prlimit_set", pid or p.pid, (res, tuple(limits)), p.inc))
            p.rlimits[res] = tuple(limits)
        return old


def wstatus_exit(code):
    return (code & 0xFF) << 8


def wstatus_signal(sig):
    return sig & 0x7F
