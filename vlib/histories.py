"""Process-table histories: a World that applies JSON-able ops to the simulated kernel *and* to psutil,
recording what psutil did (return values, exceptions, sink events) next to the model's ground truth.

Used by C01 (signals/setters vs PID reuse), C02 (identity), C04 (listing/cache).
"""
import os
import signal

from . import vkernel
from .proctable import CLK_TCK, ProcTable

B0 = 1_700_000_000
SIG_KINDS = {"suspend": signal.SIGSTOP, "resume": signal.SIGCONT, "terminate": signal.SIGTERM,
             "kill": signal.SIGKILL}


class Handle:
    def __init__(self, obj, pid, inc, created_at):
        self.obj = obj
        self.pid = pid
        self.inc = inc          # incarnation the object was created for
        self.created_at = created_at


class _WallTime:
    def __init__(self, world, real):
        self._w = world
        self._r = real

    def time(self):
        return self._w._wall()

    def __getattr__(self, n):
        return getattr(self._r, n)


class World:
    def __init__(self, ps, pids=(7, 8, 9), ncpu=4, with_pid0=False, prime=True):
        self.ps = ps
        self.prime = prime
        self.seen_objs = {}
        self.open_cms = {}
        self.t = ProcTable(btime=B0, ncpu=ncpu, self_pid=2)
        self.t.spawn(1, 1, ppid=0, comm=b"init")
        self.t.spawn(2, 2, ppid=1, comm=b"harness")
        if with_pid0:
            self.t.spawn(0, 0, ppid=0, comm=b"swapper")
        from . import fixtures
        self.t.rootfiles.update({"meminfo": fixtures.MEMINFO, "net/tcp": fixtures.NET_HDR_INET,
                                 "net/tcp6": fixtures.NET_HDR_INET, "net/udp": fixtures.NET_HDR_INET,
                                 "net/udp6": fixtures.NET_HDR_INET, "net/unix": b"Num RefCount Protocol Flags Type St Inode Path\n"})
        self.vk = vkernel.VK()
        self.vk.table = self.t
        self.vk.mount("/vproc", self.t)
        # another system's procfs (a container's, the host's): its own boot time, its own processes
        self.tB = ProcTable(btime=B0 + 7777, ncpu=ncpu, self_pid=2)
        self.tB.spawn(1, 3, ppid=0, comm=b"initB")
        self.tB.spawn(2, 4, ppid=1, comm=b"otherB")
        self.tB.rootfiles.update(self.t.rootfiles)
        self.vk.mount("/vprocB", self.tB)
        self.tick = 10
        self.handles = []
        self.records = []       # one dict per op: op, result, events (sink events during the op)
        self.dead_incs = set()

    def _wall(self):
        """The calendar clock of the simulated machine: what its kernel publishes as boot time + its uptime (one tick per
        op), so a clock step (`step` op) moves it together with btime and no process ever started "in the future"."""
        return self.t.btime + (self.tick + 1) / CLK_TCK

    def __enter__(self):
        self.vk.__enter__()
        ps = self.ps
        ps.PROCFS_PATH = "/vproc"
        # whichever psutil module looks at the calendar clock sees the simulated machine's
        import sys
        import time as _time
        self._time_patched = []
        for name, mod in list(sys.modules.items()):
            if mod is not None and (name == ps.__name__ or name.startswith(ps.__name__ + ".")) and getattr(mod, "time", None) is _time:
                mod.time = _WallTime(self, _time)
                self._time_patched.append(mod)
        if self.prime:
            # fresh-program state through public API only
            ps.boot_time()
            ps.process_iter.cache_clear()
            list(ps.process_iter())
            ps.process_iter.cache_clear()
        # prime=False: the interpreter *is* fresh (first case of a new process): nothing has been cached yet
        self.vk.events.clear()
        self.vk.log.clear()
        return self

    def __exit__(self, *a):
        for mod in getattr(self, "_time_patched", []):
            mod.time = mod.time._r
        for cm in list(self.open_cms.values()):
            try:
                cm.__exit__(None, None, None)
            except Exception:  # noqa: BLE001
                pass
        self.open_cms.clear()
        # leave module-level caches as a fresh program would find them
        self.t.btime = B0
        try:
            self.ps.boot_time()
            self.ps.process_iter.cache_clear()
        finally:
            self.vk.__exit__(*a)

    # -- model helpers -----------------------------------------------------------------
    def cur_inc(self, pid):
        p = self.t.procs.get(pid)
        return p.inc if p is not None else None

    def alive(self, h):
        return h.inc is not None and self.cur_inc(h.pid) == h.inc

    def _call(self, fn):
        ps = self.ps
        try:
            return ("ok", fn())
        except ps.ZombieProcess as e:
            return ("ZombieProcess", e.pid)
        except ps.NoSuchProcess as e:
            return ("NoSuchProcess", e.pid)
        except ps.AccessDenied as e:
            return ("AccessDenied", e.pid)
        except Exception as e:  # noqa: BLE001
            return ("exc:" + type(e).__name__, str(e)[:200])

    # -- ops ---------------------------------------------------------------------------
    fault_fired_tick = None
    fault_armed = None

    def apply(self, op):
        """Apply one op. Returns the record (also appended to self.records)."""
        self.tick += 1
        kind = op[0]
        ev0 = len(self.vk.events)
        br0 = len(self.vk.breaches)
        rec = dict(op=list(op), tick=self.tick)
        t, ps = self.t, self.ps
        if kind == "spawn":           # ("spawn", pid, as_zombie, ppid?)
            pid = op[1]
            comm = op[4].encode("latin-1") if len(op) > 4 and op[4] is not None else b"p%d" % self.tick
            p = t.spawn(pid, self.tick, ppid=(op[3] if len(op) > 3 and op[3] is not None else 1), comm=comm[:15])
            if len(comm) > 15:
                # a kernel worker: the status file spells out the work-queue description (up to 63 bytes), stat keeps 15
                p.status_name = comm
            if len(op) > 2 and op[2]:
                t.exit(pid, 0)
            rec["inc"] = p.inc
        elif kind == "exit":
            t.exit(op[1], 0)
        elif kind == "reap":
            p = t.reap(op[1])
            self.dead_incs.add(p.inc)
        elif kind == "vanish":
            p = t.remove(op[1])
            if p is not None:
                self.dead_incs.add(p.inc)
        elif kind == "epoch0":        # a board without a battery-backed clock: the calendar starts at the epoch (btime 0)
            t.btime = 0.0
        elif kind == "step":          # clock step: kernel-published boot time changes
            t.btime += op[1]
        elif kind == "thread":        # ("thread", pid, tid)
            from .proctable import Thread
            p = t.procs[op[1]]
            if p.threads is None:
                p.threads = [Thread(p.pid, p.comm)]
            p.threads.append(Thread(op[2], op[3].encode("latin-1") if len(op) > 3 and op[3] else b"thr"))
        elif kind == "new":
            pid = op[1]
            inc = self.cur_inc(pid)
            res = self._call(lambda: ps.Process(pid))
            if res[0] == "ok":
                self.handles.append(Handle(res[1], pid, inc, self.tick))
                rec["handle"] = len(self.handles) - 1
                rec["res"] = ("ok", None)
            else:
                rec["res"] = res
            rec["model_exists"] = inc is not None
        elif kind == "copy":          # ("copy", h, how): the program duplicates / serialises a handle it holds
            import copy as _copy
            import pickle as _pickle
            h = self.handles[op[1]]
            how = op[2]
            fn = {"copy": lambda: _copy.copy(h.obj), "deepcopy": lambda: _copy.deepcopy(h.obj),
                  "pickle": lambda: _pickle.loads(_pickle.dumps(h.obj))}[how]
            res = self._call(fn)
            if res[0] == "ok" and isinstance(res[1], ps.Process):
                # whatever way it came about, the duplicate stands for the process the original stands for
                self.handles.append(Handle(res[1], h.pid, h.inc, h.created_at))
                rec["handle"] = len(self.handles) - 1
                rec["res"] = ("ok", None)
            else:
                rec["res"] = res         # refusing to be copied (TypeError) is an answer too
        elif kind == "newp":
            # a psutil.Popen object for a child whose pid is `pid` (the subprocess.Popen underneath is a stand-in that is
            # never waited for, so its returncode stays None - as when the child is reaped behind Popen's back)
            pid = op[1]
            inc = self.cur_inc(pid)

            class _FakeSub:
                def __init__(self):
                    self.pid = pid
                    self.returncode = None
                    self.stdin = self.stdout = self.stderr = None
                    self.args = ["simulated"]

                def poll(self):
                    return None
            real_sub = ps.subprocess
            ps.subprocess = vkernel.ModProxy(real_sub, {"Popen": lambda *a, **k: _FakeSub()})
            try:
                res = self._call(lambda: ps.Popen(["simulated"]))
            finally:
                ps.subprocess = real_sub
            if res[0] == "ok":
                self.handles.append(Handle(res[1], pid, inc, self.tick))
                rec["handle"] = len(self.handles) - 1
                rec["res"] = ("ok", None)
            else:
                rec["res"] = res
        elif kind == "osenter":
            h = self.handles[op[1]]
            if op[1] not in self.open_cms:
                cm = h.obj.oneshot()
                rec["res"] = self._call(cm.__enter__)
                self.open_cms[op[1]] = cm
        elif kind == "osexit":
            cm = self.open_cms.pop(op[1], None)
            if cm is not None:
                rec["res"] = self._call(lambda: cm.__exit__(None, None, None))
        elif kind == "isrun":
            h = self.handles[op[1]]
            rec["res"] = self._call(h.obj.is_running)
            rec["model"] = self.alive(h)
        elif kind == "q":             # ("q", h, getter)
            h = self.handles[op[1]]
            rec["res"] = self._call(getattr(h.obj, op[2]))
            rec["model_alive"] = self.alive(h)
        elif kind == "iter":
            res = self._call(lambda: [p for p in ps.process_iter()])
            if res[0] == "ok":
                rec["res"] = ("ok", [p.pid for p in res[1]])
                rec["objs"] = res[1]
                # every object is a handle of the incarnation that owned the pid when the object was first yielded
                # (process_iter creates it at that listing); remembered for every iteration, kept on request
                for p in res[1]:
                    if id(p) not in self.seen_objs:
                        self.seen_objs[id(p)] = [p, self.cur_inc(p.pid), self.tick, False]
                if len(op) > 1 and op[1] == "keep":
                    for p in res[1]:
                        ent = self.seen_objs[id(p)]
                        if p.pid >= 7 and not ent[3] and ent[1] is not None:
                            ent[3] = True
                            self.handles.append(Handle(p, p.pid, ent[1], ent[2]))
            else:
                rec["res"] = res
            rec["model"] = sorted(t.procs)
        elif kind == "pidex":
            rec["res"] = self._call(lambda: ps.pid_exists(op[1]))
            rec["model"] = op[1] in t.procs
        elif kind == "pids":
            rec["res"] = self._call(ps.pids)
            rec["model"] = sorted(t.procs)
        elif kind == "boot":
            rec["res"] = self._call(ps.boot_time)
        elif kind == "visit":         # ("visit", what): the program looks at another procfs for a moment and comes back
            ps.PROCFS_PATH = "/vprocB"
            try:
                if op[1] == "boot":
                    rec["res"] = self._call(ps.boot_time)
                elif op[1] == "proc":
                    rec["res"] = self._call(lambda: ps.Process(1).create_time())
                else:
                    rec["res"] = self._call(lambda: ps.pid_exists(2))
            finally:
                ps.PROCFS_PATH = "/vproc"
        elif kind == "sig":           # ("sig", h, kind, signo)
            h = self.handles[op[1]]
            k = op[2]
            if k == "send_signal":
                rec["res"] = self._call(lambda: h.obj.send_signal(op[3]))
            else:
                rec["res"] = self._call(getattr(h.obj, k))
            rec["model_alive"] = self.alive(h)
            rec["model_owner"] = self.cur_inc(h.pid)
        elif kind == "set":           # ("set", h, kind, value)
            h = self.handles[op[1]]
            k, v = op[2], op[3]
            kw = len(op) > 4 and op[4] == "kw"      # the keyword spelling of the same request
            if k == "nice":
                fn = (lambda: h.obj.nice(value=v)) if kw else (lambda: h.obj.nice(v))
            elif k == "ionice":
                fn = (lambda: h.obj.ionice(ioclass=v[0], value=v[1])) if kw else (lambda: h.obj.ionice(v[0], v[1]))
            elif k == "rlimit":
                fn = (lambda: h.obj.rlimit(v[0], limits=tuple(v[1]))) if kw else (lambda: h.obj.rlimit(v[0], tuple(v[1])))
            elif k == "affinity":
                fn = (lambda: h.obj.cpu_affinity(cpus=list(v))) if kw else (lambda: h.obj.cpu_affinity(list(v)))
            rec["res"] = self._call(fn)
            rec["model_alive"] = self.alive(h)
            rec["model_owner"] = self.cur_inc(h.pid)
        elif kind == "fault":         # ("fault", "EMFILE"): the next open of a /proc/<pid>/stat file fails once with that errno
            import errno as _errno
            import re as _re
            code = getattr(_errno, op[1])
            armed = [True]

            def rule(k, path, armed=armed, code=code):
                if armed[0] and k == "open" and _re.match(r"^/vproc/\d+/stat$", path):
                    armed[0] = False
                    self.fault_fired_tick = self.tick
                    return OSError(code, os.strerror(code), path)
                return None
            self.vk.rules.append(rule)
            if self.fault_armed and self.fault_armed[0]:
                self.fault_armed[0] = False         # one transient failure at a time
            self.fault_armed = armed
        elif kind == "wait":          # ("wait", h[, "procs"]) : wait(timeout=0) / wait_procs([obj], timeout=0) on the object
            h = self.handles[op[1]]
            if len(op) > 2 and op[2] == "procs":
                rec["res"] = self._call(lambda: [len(x) for x in ps.wait_procs([h.obj], timeout=0)])
            else:
                rec["res"] = self._call(lambda: h.obj.wait(timeout=0))
            rec["model_alive"] = self.alive(h)
        elif kind == "cmp":
            pairs = []
            hs = self.handles
            for i in range(len(hs)):
                for j in range(i, len(hs)):
                    a, b = hs[i], hs[j]
                    try:
                        eq = a.obj == b.obj
                        ne = a.obj != b.obj
                        ha, hb = hash(a.obj), hash(b.obj)
                    except Exception as e:  # noqa: BLE001
                        pairs.append((i, j, "exc:" + type(e).__name__, None, None))
                        continue
                    want = a.pid == b.pid and a.inc == b.inc
                    pairs.append((i, j, eq, ne, ha == hb, want))
            rec["pairs"] = pairs
        elif kind == "clear":
            ps.process_iter.cache_clear()
        elif kind == "newneg":
            rec["res"] = self._call(lambda: ps.Process(op[1]))
        else:
            raise ValueError(op)
        rec["events"] = [list(e) for e in self.vk.events[ev0:]]
        rec["breaches"] = [list(b) for b in self.vk.breaches[br0:]]
        self.records.append(rec)
        return rec


def summarize(rec):
    """JSON-able one-line rendering of a record (for samples / witnesses)."""
    r = {k: v for k, v in rec.items() if k not in ("objs",)}
    if "res" in r:
        r["res"] = (r["res"][0], str(r["res"][1])[:80])
    return r
