"""Real PID recycling on the live kernel.

Linux hands out PIDs cyclically, so forking short-lived children until the counter comes round again gives a *real*
new process under a PID that a psutil.Process object still remembers (about 32k forks with the default pid_max, a few
seconds).  `native/pidreuse.c` does the forking; the newcomer is an innocent bystander that only pauses.
"""
import hashlib
import os
import subprocess
import sys
import time

HERE = os.path.dirname(os.path.abspath(__file__))
SRC = os.path.join(HERE, "native", "pidreuse.c")
BUILD = os.path.join(os.environ.get("VERIF_BUILD") or os.path.join(os.path.dirname(HERE), ".build"), "native")


def ensure_helper():
    """-> path of the compiled helper, or None when no C compiler is around."""
    with open(SRC, "rb") as f:
        h = hashlib.sha1(f.read()).hexdigest()[:12]
    exe = os.path.join(BUILD, f"pidreuse-{h}")
    if os.path.exists(exe):
        return exe
    os.makedirs(BUILD, exist_ok=True)
    tmp = exe + f".{os.getpid()}.tmp"
    for cc in ("cc", "gcc", "clang"):
        try:
            r = subprocess.run([cc, "-O2", "-o", tmp, SRC], stdout=subprocess.PIPE, stderr=subprocess.PIPE,
                               env={k: v for k, v in os.environ.items() if k != "LD_PRELOAD"})
        except FileNotFoundError:
            continue
        if r.returncode == 0:
            os.replace(tmp, exe)
            return exe
    return None


def ensure_shared(name):
    """-> path of native/<name>.c built as a shared object (LD_PRELOAD interposers), or None."""
    src = os.path.join(HERE, "native", name + ".c")
    with open(src, "rb") as f:
        h = hashlib.sha1(f.read()).hexdigest()[:12]
    so = os.path.join(BUILD, f"lib{name}-{h}.so")
    if os.path.exists(so):
        return so
    os.makedirs(BUILD, exist_ok=True)
    tmp = so + f".{os.getpid()}.tmp"
    for cc in ("cc", "gcc", "clang"):
        try:
            r = subprocess.run([cc, "-O2", "-shared", "-fPIC", "-o", tmp, src, "-ldl"], stdout=subprocess.PIPE, stderr=subprocess.PIPE,
                               env={k: v for k, v in os.environ.items() if k != "LD_PRELOAD"})
        except FileNotFoundError:
            continue
        if r.returncode == 0:
            os.replace(tmp, so)
            return so
    return None


def pid_max():
    try:
        with open("/proc/sys/kernel/pid_max") as f:
            return int(f.read())
    except (OSError, ValueError):
        return 4194304


class Recycled:
    """with Recycled(pid) as r:  r.ok -> a new, unrelated process now owns `pid` (r.forks = forks it took)."""

    def __init__(self, pid, wraps=3):
        self.pid = pid
        self.ok = False
        self.forks = 0
        self.why = None
        self.proc = None
        self.wraps = wraps

    def __enter__(self):
        exe = ensure_helper()
        if exe is None:
            self.why = "no C compiler for the pid-recycling helper"
            return self
        pm = pid_max()
        if pm > 1 << 17:
            self.why = f"pid_max={pm}: a full wrap takes too long"
            return self
        env = {k: v for k, v in os.environ.items() if k != "LD_PRELOAD"}
        self.proc = subprocess.Popen([exe, str(self.pid), str(pm * self.wraps)], stdin=subprocess.PIPE, stdout=subprocess.PIPE,
                                     env=env, text=True)
        line = self.proc.stdout.readline()
        if line.startswith("GOT"):
            self.ok = True
            self.forks = int(line.split()[2])
        else:
            self.why = f"pid {self.pid} was taken by someone else on every wrap ({line.strip()!r})"
        return self

    def __exit__(self, *a):
        if self.proc is not None:
            try:
                self.proc.stdin.close()
            except OSError:
                pass
            try:
                self.proc.wait(30)
            except subprocess.TimeoutExpired:
                self.proc.kill()
                self.proc.wait()
            self.proc.stdout.close()


def bystander_state(pid):
    """What must not change on the newcomer: liveness, run state, nice, affinity, pending stop."""
    import resource
    with open(f"/proc/{pid}/stat", "rb") as f:
        data = f.read()
    fields = data[data.rfind(b")") + 2:].split()
    st = fields[0].decode()
    if st in "RSDI":
        st = "alive"          # running / sleeping / waiting alternate on their own; stopped (T/t) and dead (Z/X) do not
    return dict(state=st, ppid=int(fields[1]), nice=os.getpriority(os.PRIO_PROCESS, pid),
                affinity=sorted(os.sched_getaffinity(pid)), starttime=int(fields[19]),
                nofile=resource.prlimit(pid, resource.RLIMIT_NOFILE))


if __name__ == "__main__":
    p = subprocess.Popen([sys.executable, "-c", "import time; time.sleep(1000)"])
    pid = p.pid
    p.kill()
    p.wait()
    t0 = time.time()
    with Recycled(pid) as r:
        print(r.ok, r.forks, r.why, round(time.time() - t0, 1), bystander_state(pid) if r.ok else None)
