"""vkernel - a scriptable kernel *under* the unmodified psutil code.

* virtual procfs root (default /vproc): in-memory nodes produced lazily by providers (ProcTable or a
  static MemFS); psutil.PROCFS_PATH (public API) is pointed at it.
* prefix redirects (e.g. /sys/class/hwmon -> real temp tree).
* every intercepted OS access is logged *before* being served and can be faulted by a plan.
* signal / setter sinks: os.kill, os.waitpid, cext ioprio/affinity, cext_posix get/setpriority,
  resource.prlimit are recording proxies applied to the ProcTable.
* virtual clock.

Nothing here imports psutil at module import; `install(psutil)` wires the module attributes.
"""
import builtins
import errno
import io
import os
import stat as statmod
import sys

_real = dict(
    open=builtins.open, io_open=io.open, listdir=os.listdir, scandir=os.scandir, stat=os.stat,
    lstat=os.lstat, readlink=os.readlink, access=os.access, kill=os.kill, waitpid=os.waitpid,
    statvfs=os.statvfs, getpid=os.getpid,
)
real_open = _real["open"]

CUR = None          # the active VK (or None = pass-through)
_installed = False


def oserr(code, path=None):
    return OSError(code, os.strerror(code), path)


# ----------------------------------------------------------------------------------------------
# nodes
# ----------------------------------------------------------------------------------------------

class F:
    """regular file. data: bytes or callable -> bytes (evaluated at first read)."""
    __slots__ = ("data", "read_err", "mode")

    def __init__(self, data=b"", read_err=None, mode=0o444):
        self.data = data
        self.read_err = read_err   # None | exception | callable -> exception|None (evaluated at read)
        self.mode = mode


class D:
    """directory. names: list[str] or callable -> list[str]."""
    __slots__ = ("names", "list_err", "size")

    def __init__(self, names=(), list_err=None, size=0):
        self.names = names
        self.list_err = list_err
        self.size = size          # st_size reported by stat() (int or callable)


class L:
    """symlink with an arbitrary target string."""
    __slots__ = ("target", "err")

    def __init__(self, target, err=None):
        self.target = target
        self.err = err    # exception raised by readlink instead


class _Raw(io.RawIOBase):
    def __init__(self, vk, path, node):
        self._vk = vk
        self._path = path
        self._node = node
        self._buf = None
        self._pos = 0

    def readable(self):
        return True

    def _load(self):
        if self._buf is None:
            vk = self._vk
            if vk is not None and CUR is vk:
                vk.access("read", self._path)
            err = self._node.read_err
            if callable(err):
                err = err()
            if err is not None:
                raise err
            d = self._node.data
            if callable(d):
                d = d()
            self._buf = bytes(d)

    def readinto(self, b):
        self._load()
        n = min(len(b), len(self._buf) - self._pos)
        b[:n] = self._buf[self._pos:self._pos + n]
        self._pos += n
        return n

    def fileno(self):
        raise io.UnsupportedOperation("fileno")


class _HookedFile:
    """A real file object whose first read is announced as a 'read' access (fault hooks fire between open and read)."""

    def __init__(self, f, vk, path):
        self.__dict__["_f"] = f
        self.__dict__["_vk"] = vk
        self.__dict__["_path"] = path
        self.__dict__["_announced"] = False

    def _announce(self):
        if not self._announced:
            self.__dict__["_announced"] = True
            vk = self._vk
            if vk is not None and CUR is vk:
                vk.access("read", self._path)

    def read(self, *a):
        self._announce()
        return self._f.read(*a)

    def readline(self, *a):
        self._announce()
        return self._f.readline(*a)

    def readlines(self, *a):
        self._announce()
        return self._f.readlines(*a)

    def __iter__(self):
        self._announce()
        return iter(self._f)

    def __next__(self):
        self._announce()
        return next(self._f)

    def __enter__(self):
        self._f.__enter__()
        return self

    def __exit__(self, *a):
        return self._f.__exit__(*a)

    def __getattr__(self, name):
        return getattr(self._f, name)


def _fspath(p):
    if isinstance(p, bytes):
        return os.fsdecode(p), True
    if isinstance(p, str):
        return p, False
    if hasattr(p, "__fspath__"):
        q = os.fspath(p)
        return (os.fsdecode(q), True) if isinstance(q, bytes) else (q, False)
    return None, False


# ----------------------------------------------------------------------------------------------
# VK
# ----------------------------------------------------------------------------------------------

class VK:
    def __init__(self, root="/vproc"):
        self.root = root
        self.providers = []      # (prefix, provider) ; provider.resolve(relparts) -> node | raise
        self.redirects = []      # (prefix, realdir)
        self.log = []            # (kind, path)
        self.plan = {}           # access index -> callable(vk, kind, path) -> exception|None
        self.rules = []          # callables(kind, path) -> exception|None, on every access
        self.events = []         # sink events
        self.breaches = []       # hard invariant breaches (kill pid<=0 ...)
        self.table = None
        self.clock = None
        self.on_access = None    # optional hook(vk, idx, kind, path)
        self.rdev = {}           # path -> st_rdev reported for a redirected path (fake device nodes)
        self.count_only = None   # optional predicate(kind, path): only those accesses get an index
        self.list_order = None   # optional callable(path, names) -> names: the order a directory listing comes back in
        self.hook_reads = False  # redirected (real) files announce their first read as a "read" access

    # -- wiring ---------------------------------------------------------------------------
    def mount(self, prefix, provider):
        self.providers.append((prefix.rstrip("/"), provider))
        self.providers.sort(key=lambda t: -len(t[0]))

    def redirect(self, prefix, realdir):
        self.redirects.append((prefix.rstrip("/"), realdir.rstrip("/")))
        self.redirects.sort(key=lambda t: -len(t[0]))

    def __enter__(self):
        global CUR
        self._prev = CUR
        CUR = self
        return self

    def __exit__(self, *a):
        global CUR
        CUR = self._prev

    # -- access log / faults --------------------------------------------------------------
    def access(self, kind, path):
        if self.count_only is not None and not self.count_only(kind, path):
            return
        i = len(self.log)
        self.log.append((kind, path))
        if self.on_access is not None:
            self.on_access(self, i, kind, path)
        act = self.plan.get(i)
        if act is not None:
            e = act(self, kind, path)
            if e is not None:
                raise e
        for r in self.rules:
            e = r(kind, path)
            if e is not None:
                raise e

    # -- path routing ---------------------------------------------------------------------
    def route(self, path):
        """-> ('v', provider, relparts) | ('r', realpath) | None"""
        for prefix, prov in self.providers:
            if path == prefix or path.startswith(prefix + "/"):
                rel = path[len(prefix):].strip("/")
                parts = [p for p in rel.split("/") if p not in ("", ".")]
                return ("v", prov, parts)
        for prefix, real in self.redirects:
            if path == prefix or path.startswith(prefix + "/"):
                return ("r", real + path[len(prefix):])
        return None

    def node(self, prov, parts, path, follow=True, depth=0):
        n = prov.resolve(parts)
        if n is None:
            raise oserr(errno.ENOENT, path)
        return n


def _v_open(file, mode="r", buffering=-1, encoding=None, errors=None, newline=None,
            closefd=True, opener=None):
    vk = CUR
    if vk is not None:
        p, _ = _fspath(file)
        if p is not None:
            r = vk.route(p)
            if r is not None:
                if r[0] == "r":
                    vk.access("open", p)
                    f = real_open(r[1], mode, buffering, encoding, errors, newline, closefd, opener)
                    return _HookedFile(f, vk, p) if vk.hook_reads else f
                vk.access("open", p)
                if "w" in mode or "a" in mode or "+" in mode:
                    raise oserr(errno.EACCES, p)
                n = vk.node(r[1], r[2], p)
                if isinstance(n, L):
                    # follow virtual symlink: to a real path or another virtual one
                    return _v_open(n.target, mode, buffering, encoding, errors, newline, closefd, opener)
                if isinstance(n, D):
                    raise IsADirectoryError(errno.EISDIR, os.strerror(errno.EISDIR), p)
                raw = _Raw(vk, p, n)
                raw.name = p
                if "b" in mode:
                    if buffering == 0:
                        return raw
                    bs = buffering if buffering and buffering > 1 else io.DEFAULT_BUFFER_SIZE
                    return io.BufferedReader(raw, bs)
                bs = buffering if buffering and buffering > 1 else io.DEFAULT_BUFFER_SIZE
                return io.TextIOWrapper(io.BufferedReader(raw, bs), encoding=encoding, errors=errors,
                                        newline=newline)
    return real_open(file, mode, buffering, encoding, errors, newline, closefd, opener)


def _v_listdir(path="."):
    vk = CUR
    if vk is not None:
        p, isb = _fspath(path)
        if p is not None:
            r = vk.route(p)
            if r is not None:
                vk.access("listdir", p)
                if r[0] == "r":
                    out = _real["listdir"](r[1])
                    if vk.list_order is not None:
                        out = vk.list_order(p, out)
                    return [os.fsencode(x) for x in out] if isb else out
                n = vk.node(r[1], r[2], p)
                if isinstance(n, L):
                    return _v_listdir(n.target)
                if not isinstance(n, D):
                    raise NotADirectoryError(errno.ENOTDIR, os.strerror(errno.ENOTDIR), p)
                if n.list_err is not None:
                    raise n.list_err
                names = n.names() if callable(n.names) else list(n.names)
                if vk.list_order is not None:
                    names = vk.list_order(p, list(names))
                return [os.fsencode(x) for x in names] if isb else list(names)
    return _real["listdir"](path)


def _mkstat(mode, size=0, ino=1, rdev=0):
    return os.stat_result((mode, ino, 0x17, 1, 0, 0, size, 0, 0, 0))


def _v_stat_common(kind, realfn, path, follow, kw):
    vk = CUR
    if vk is not None and not kw.get("dir_fd"):
        p, _ = _fspath(path)
        if p is not None:
            r = vk.route(p)
            if r is not None:
                vk.access(kind, p)
                if r[0] == "r":
                    st = realfn(r[1], **kw)
                    rdev = vk.rdev.get(p)
                    if rdev is not None:
                        # a redirected regular file standing for a device node
                        st = os.stat_result((statmod.S_IFCHR | 0o620,) + tuple(st[1:10]), {"st_rdev": rdev})
                    return st
                n = vk.node(r[1], r[2], p)
                if isinstance(n, L):
                    if not follow:
                        return _mkstat(statmod.S_IFLNK | 0o777)
                    if n.err is not None:
                        raise n.err
                    t = n.target
                    if not t.startswith("/"):
                        raise oserr(errno.ENOENT, p)
                    return _v_stat(t)
                if isinstance(n, D):
                    return _mkstat(statmod.S_IFDIR | 0o555, size=n.size() if callable(n.size) else n.size)
                return _mkstat(statmod.S_IFREG | n.mode)
    return realfn(path, **kw)


def _v_stat(path, *, dir_fd=None, follow_symlinks=True):
    kw = {}
    if dir_fd is not None:
        kw["dir_fd"] = dir_fd
    if not follow_symlinks:
        kw["follow_symlinks"] = False
    if isinstance(path, int):
        return _real["stat"](path, **kw)
    return _v_stat_common("stat", _real["stat"], path, follow_symlinks, kw)


def _v_lstat(path, *, dir_fd=None):
    kw = {}
    if dir_fd is not None:
        kw["dir_fd"] = dir_fd
    return _v_stat_common("lstat", _real["lstat"], path, False, kw)


def _v_readlink(path, *, dir_fd=None):
    vk = CUR
    if vk is not None and dir_fd is None:
        p, isb = _fspath(path)
        if p is not None:
            r = vk.route(p)
            if r is not None:
                vk.access("readlink", p)
                if r[0] == "r":
                    return _real["readlink"](r[1])
                n = vk.node(r[1], r[2], p)
                if not isinstance(n, L):
                    raise oserr(errno.EINVAL, p)
                if n.err is not None:
                    raise n.err
                return os.fsencode(n.target) if isb else n.target
    if dir_fd is not None:
        return _real["readlink"](path, dir_fd=dir_fd)
    return _real["readlink"](path)


def _v_access(path, mode, *, dir_fd=None, effective_ids=False, follow_symlinks=True):
    vk = CUR
    if vk is not None and dir_fd is None:
        p, _ = _fspath(path)
        if p is not None:
            r = vk.route(p)
            if r is not None:
                try:
                    vk.access("access", p)
                    if r[0] == "r":
                        return _real["access"](r[1], mode)
                    vk.node(r[1], r[2], p)
                    return True
                except OSError:
                    return False
    kw = {}
    if dir_fd is not None:
        kw["dir_fd"] = dir_fd
    if effective_ids:
        kw["effective_ids"] = True
    if not follow_symlinks:
        kw["follow_symlinks"] = False
    return _real["access"](path, mode, **kw)


class _ScandirCtx:
    def __init__(self, it):
        self._it = it

    def __iter__(self):
        return self._it

    def __next__(self):
        return next(self._it)

    def __enter__(self):
        return self

    def __exit__(self, *a):
        self.close()

    def close(self):
        c = getattr(self._it, "close", None)
        if c:
            c()


def _v_scandir(path="."):
    vk = CUR
    if vk is not None and not isinstance(path, int):
        p, _ = _fspath(path)
        if p is not None:
            r = vk.route(p)
            if r is not None:
                vk.access("scandir", p)
                if r[0] == "r":
                    if vk.list_order is not None:
                        with _real["scandir"](r[1]) as it:
                            ents = {e.name: e for e in it}
                        return _ScandirCtx(iter([ents[n] for n in vk.list_order(p, list(ents))]))
                    return _real["scandir"](r[1])
                raise NotImplementedError("scandir on the in-memory procfs is not needed by psutil")
    return _real["scandir"](path)


def _v_kill(pid, sig):
    vk = CUR
    if vk is not None and vk.table is not None:
        return vk.table.sys_kill(vk, pid, sig)
    return _real["kill"](pid, sig)


def _v_getpid():
    vk = CUR
    if vk is not None and vk.table is not None and getattr(vk.table, "fake_getpid", None) is not None:
        return vk.table.fake_getpid
    return _real["getpid"]()


def _v_waitpid(pid, flags):
    vk = CUR
    if vk is not None and vk.table is not None:
        return vk.table.sys_waitpid(vk, pid, flags)
    return _real["waitpid"](pid, flags)


class ModProxy:
    """Delegating proxy for a module with overridable attributes."""

    def __init__(self, real, overrides):
        object.__setattr__(self, "_real", real)
        object.__setattr__(self, "_ov", overrides)

    def __getattr__(self, name):
        ov = object.__getattribute__(self, "_ov")
        if name in ov:
            return ov[name]
        return getattr(object.__getattribute__(self, "_real"), name)

    def __dir__(self):
        return dir(object.__getattribute__(self, "_real"))


def _native(name):
    def f(*args):
        vk = CUR
        if vk is not None and vk.table is not None:
            return getattr(vk.table, "nat_" + name)(vk, *args)
        raise RuntimeError("native sink called without an active VK")
    f.__name__ = name
    return f


def install(psutil=None, sinks=True):
    """Install the wrappers once per process. With `psutil` given, also wire the native sinks."""
    global _installed
    if not _installed:
        builtins.open = _v_open
        io.open = _v_open
        os.listdir = _v_listdir
        os.scandir = _v_scandir
        os.stat = _v_stat
        os.lstat = _v_lstat
        os.readlink = _v_readlink
        os.access = _v_access
        _installed = True
    if psutil is not None and sinks:
        pl = sys.modules["psutil._pslinux"]
        if not isinstance(pl.cext, ModProxy):
            real_cext, real_posix, real_res = pl.cext, pl.cext_posix, pl.resource

            def passthru(realfn, name):
                sink = _native(name)

                def f(*args):
                    vk = CUR
                    if vk is not None and vk.table is not None:
                        return sink(*args)
                    return realfn(*args)
                return f
            pl.cext = ModProxy(real_cext, {
                n: passthru(getattr(real_cext, n), n) for n in
                ("proc_ioprio_get", "proc_ioprio_set", "proc_cpu_affinity_get", "proc_cpu_affinity_set")})
            pl.cext_posix = ModProxy(real_posix, {
                n: passthru(getattr(real_posix, n), n) for n in ("getpriority", "setpriority")})
            pl.resource = ModProxy(real_res, {"prlimit": passthru(real_res.prlimit, "prlimit")})
        os.kill = _v_kill
        os.waitpid = _v_waitpid
        os.getpid = _v_getpid


def set_procfs(psutil, root):
    psutil.PROCFS_PATH = root


# ----------------------------------------------------------------------------------------------
# static in-memory tree
# ----------------------------------------------------------------------------------------------

class MemFS:
    """Static tree: dict path-relative-to-mount -> F | L | D. Directories are implied."""

    def __init__(self, files=None):
        self.files = dict(files or {})

    def put(self, rel, node):
        if isinstance(node, (bytes, bytearray)):
            node = F(bytes(node))
        self.files[rel.strip("/")] = node

    def resolve(self, parts):
        rel = "/".join(parts)
        n = self.files.get(rel)
        if n is not None:
            return n
        pre = rel + "/" if rel else ""
        names = []
        seen = set()
        for k in self.files:
            if k.startswith(pre):
                nm = k[len(pre):].split("/", 1)[0]
                if nm and nm not in seen:
                    seen.add(nm)
                    names.append(nm)
        if names or rel == "":
            return D(names)
        return None


class Chain:
    """First provider that resolves wins (e.g. ProcTable over a MemFS of root-level files)."""

    def __init__(self, *provs):
        self.provs = provs

    def resolve(self, parts):
        for p in self.provs:
            n = p.resolve(parts)
            if n is not None:
                return n
        return None


# ----------------------------------------------------------------------------------------------
# virtual clock
# ----------------------------------------------------------------------------------------------

class VClock:
    def __init__(self, t0=1000.0):
        self.t = t0
        self.sleeps = []
        self.timers = []       # (t, fn)
        self.reads = 0

    def now(self):
        self.reads += 1
        return self.t

    def at(self, t, fn):
        self.timers.append((t, fn))
        self.timers.sort(key=lambda x: x[0])

    def advance(self, dt):
        target = self.t + dt
        while self.timers and self.timers[0][0] <= target:
            t, fn = self.timers.pop(0)
            self.t = max(self.t, t)
            fn()
        self.t = target

    def sleep(self, dt):
        self.sleeps.append(dt)
        if dt < 0:
            raise ValueError("sleep length must be non-negative")
        # a sleep may return late (signal handler, SIGSTOP, a loaded machine): `oversleep` seconds late
        self.advance(dt + getattr(self, "oversleep", 0.0))


class TimeProxy:
    def __init__(self, clock, real):
        self._c = clock
        self._r = real

    def sleep(self, dt):
        return self._c.sleep(dt)

    def monotonic(self):
        return self._c.now()

    def time(self):
        # the calendar clock = the monotonic one plus an offset that a test may step (NTP, date -s, VM resume)
        return self._c.now() + getattr(self._c, "wall_offset", 0.0) + 1_700_000_000.0

    def __getattr__(self, n):
        return getattr(self._r, n)
