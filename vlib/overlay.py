"""Overlay of /repo's *working tree*: symlinked .py files + freshly built extensions.

Checks never import an installed psutil.  `ensure(flavour)` returns a directory to put first on
sys.path; it contains psutil/ with symlinks to /repo/psutil/*.py and the C extensions built out of
tree by the repository's own setup.py (so /repo stays clean).  The build is keyed by a content hash
of every C source / header + setup.py + flags, recomputed on every call.
"""
import fcntl
import hashlib
import os
import shutil
import subprocess
import sys

REPO = os.environ.get("VERIF_REPO", "/repo")
VERIF = os.path.dirname(os.path.dirname(os.path.abspath(__file__)))
BUILD = os.environ.get("VERIF_BUILD") or os.path.join(VERIF, ".build")
PY = os.environ.get("VERIF_PYTHON", "/venv/bin/python")
ASAN_RT = "/usr/lib/llvm-14/lib/clang/14.0.6/lib/linux/libclang_rt.asan-x86_64.so"

FLAVOURS = {
    "plain": dict(env={}),
    "asan": dict(env={
        "CC": "clang",
        "LDSHARED": "clang -shared",
        "CFLAGS": "-fsanitize=address,undefined -fno-sanitize-recover=all "
                  "-fno-omit-frame-pointer -g -O1",
        "LDFLAGS": "-fsanitize=address,undefined",
    }),
    # exploration build: reports do not abort, so several defects can be counted in one run
    "asan_recover": dict(env={
        "CC": "clang",
        "LDSHARED": "clang -shared",
        "CFLAGS": "-fsanitize=address,undefined -fsanitize-recover=all "
                  "-fno-omit-frame-pointer -g -O1",
        "LDFLAGS": "-fsanitize=address,undefined",
    }),
}


def _csources():
    out = []
    for root, _dirs, files in os.walk(os.path.join(REPO, "psutil")):
        if "/tests" in root:
            continue
        for f in files:
            if f.endswith((".c", ".h")):
                out.append(os.path.join(root, f))
    out.append(os.path.join(REPO, "setup.py"))
    out.append(os.path.join(REPO, "psutil", "_common.py"))  # setup.py imports it
    out.append(os.path.join(REPO, "psutil", "__init__.py"))  # version is parsed from it
    return sorted(out)


def source_hash(flavour):
    h = hashlib.sha256()
    h.update(repr(sorted(FLAVOURS[flavour]["env"].items())).encode())
    for p in _csources():
        h.update(p.encode())
        try:
            with open(p, "rb") as f:
                h.update(f.read())
        except OSError:
            h.update(b"<missing>")
    return h.hexdigest()[:20]


def _link_py(dst_pkg):
    src_pkg = os.path.join(REPO, "psutil")
    want = {f for f in os.listdir(src_pkg) if f.endswith(".py")}
    have = {f for f in os.listdir(dst_pkg) if f.endswith(".py")}
    for f in have - want:
        os.unlink(os.path.join(dst_pkg, f))
    for f in want:
        d = os.path.join(dst_pkg, f)
        s = os.path.join(src_pkg, f)
        if os.path.islink(d) and os.readlink(d) == s:
            continue
        if os.path.lexists(d):
            os.unlink(d)
        os.symlink(s, d)


def ensure(flavour="plain", quiet=True):
    """Return the overlay directory for `flavour`, (re)building if the sources changed."""
    os.makedirs(BUILD, exist_ok=True)
    root = os.path.join(BUILD, flavour)
    pkg = os.path.join(root, "psutil")
    stamp = os.path.join(root, "HASH")
    want = source_hash(flavour)
    lock = open(os.path.join(BUILD, f".{flavour}.lock"), "w")
    fcntl.flock(lock, fcntl.LOCK_EX)
    try:
        have = None
        if os.path.exists(stamp):
            with open(stamp) as f:
                have = f.read().strip()
        if have != want or not os.path.isdir(pkg):
            tmp_lib = os.path.join(BUILD, f"{flavour}.lib")
            tmp_obj = os.path.join(BUILD, f"{flavour}.obj")
            for d in (tmp_lib, tmp_obj, root):
                shutil.rmtree(d, ignore_errors=True)
            env = dict(os.environ)
            env.update(FLAVOURS[flavour]["env"])
            env.pop("PYTHONPATH", None)
            env["PYTHONDONTWRITEBYTECODE"] = "1"
            cmd = [PY, "-B", "setup.py", "-q", "build_ext", "--build-lib", tmp_lib,
                   "--build-temp", tmp_obj]
            p = subprocess.run(cmd, cwd=REPO, env=env, stdout=subprocess.PIPE,
                               stderr=subprocess.STDOUT, text=True)
            if p.returncode != 0:
                sys.stderr.write(p.stdout)
                raise RuntimeError(f"overlay build failed for flavour {flavour}")
            os.makedirs(pkg)
            built = os.path.join(tmp_lib, "psutil")
            n = 0
            for f in os.listdir(built):
                if f.endswith(".so"):
                    shutil.copy2(os.path.join(built, f), os.path.join(pkg, f))
                    n += 1
            if n < 2:
                raise RuntimeError(f"overlay build produced {n} extension modules")
            shutil.rmtree(tmp_lib, ignore_errors=True)
            shutil.rmtree(tmp_obj, ignore_errors=True)
            with open(stamp, "w") as f:
                f.write(want)
        _link_py(pkg)
        # tests package is needed by the secondary (upstream-suite) workloads
        t = os.path.join(pkg, "tests")
        s = os.path.join(REPO, "psutil", "tests")
        if not (os.path.islink(t) and os.readlink(t) == s):
            if os.path.lexists(t):
                os.unlink(t)
            os.symlink(s, t)
    finally:
        fcntl.flock(lock, fcntl.LOCK_UN)
        lock.close()
    return root


def worker_env(flavour="plain", extra=None):
    """Environment for a worker subprocess that must import the overlay's psutil."""
    root = ensure(flavour)
    env = dict(os.environ)
    env["PYTHONPATH"] = root + os.pathsep + VERIF
    env["PYTHONDONTWRITEBYTECODE"] = "1"
    env.setdefault("PYTHONHASHSEED", "0")
    env["VERIF_OVERLAY"] = root
    if flavour.startswith("asan"):
        env["LD_PRELOAD"] = ASAN_RT
        opts = "detect_leaks=0:allocator_may_return_null=1:handle_segv=1"
        if flavour == "asan":
            opts += ":halt_on_error=1:abort_on_error=1"
        else:
            opts += ":halt_on_error=0"
        env["ASAN_OPTIONS"] = opts + (":" + env["ASAN_OPTIONS_EXTRA"] if env.get("ASAN_OPTIONS_EXTRA") else "")
        env["UBSAN_OPTIONS"] = "print_stacktrace=1" + (":halt_on_error=1" if flavour == "asan" else "")
    if extra:
        env.update(extra)
    return env


if __name__ == "__main__":
    for fl in sys.argv[1:] or ["plain", "asan"]:
        print(fl, ensure(fl, quiet=False))
