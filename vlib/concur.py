"""Concurrent callers of functions that look stateless: over a static simulated world every answer must be the one a lone
caller gets.  Catches module-level scratch state, shared buffers, iterators and caches that two callers trample on."""
import sys
import threading

from . import harness


def render(fn):
    try:
        return ("ok", repr(fn()))
    except Exception as e:  # noqa: BLE001
        return ("exc", type(e).__name__)


def concurrent_vs_sequential(jobs, seed, threads=4, calls=120, switch=1e-6):
    """jobs: {name: zero-argument callable}.  -> (baseline, errors, mismatches) where mismatches is a list of
    (name, got, want) and errors a list of (thread index, exception).  Must run inside the world's `with vk:`."""
    names = sorted(jobs)
    base = {n: render(jobs[n]) for n in names}
    errors, wrong = [], []
    barrier = threading.Barrier(threads)
    old = sys.getswitchinterval()

    def worker(i):
        r = harness.rng_for(seed, "concur", i)
        try:
            barrier.wait()
            for k in range(calls):
                n = names[(i + k) % len(names)] if k % 3 else r.choice(names)
                got = render(jobs[n])
                if got != base[n]:
                    wrong.append((n, got, base[n]))
        except BaseException as e:  # noqa: BLE001
            errors.append((i, e))
    sys.setswitchinterval(switch)
    try:
        ths = [threading.Thread(target=worker, args=(i,), daemon=True) for i in range(threads)]
        for t in ths:
            t.start()
        for t in ths:
            t.join(300)
    finally:
        sys.setswitchinterval(old)
    return base, errors, wrong


def violations(errors, wrong, what=""):
    viols = [(f"concurrent_exception:{type(e).__name__}", f"{what} thread {i}: {e!r}") for i, e in errors]
    seen = set()
    for n, got, want in wrong:
        key = n.split("@")[0]
        if key in seen:
            continue
        seen.add(key)
        viols.append((f"concurrent_result_differs_from_sequential:{key}",
                      f"{what} {n} -> {str(got)[:300]} while other threads call other functions; alone it answers {str(want)[:300]} "
                      f"({len(wrong)} such answers in this run)"))
    return viols
