"""Check driver: plan -> worker subprocesses -> merge -> oracle verdict -> evidence + exit code.

Exit 0: property held on everything observed (KNOWN-FINDING lines may be printed).
Exit 1: `VIOLATION property=<id> replay=<path>` printed for a violation not in known_findings.json.
Exit 2: `INCONCLUSIVE property=<id> reason=...` - a deciding monitor was never reached / worker died.
"""
import argparse
import collections
import concurrent.futures
import hashlib
import importlib
import json
import os
import subprocess
import sys
import tempfile
import time

from . import overlay

VERIF = overlay.VERIF
KNOWN = os.path.join(VERIF, "known_findings.json")
NCPU = min(16, os.cpu_count() or 4)


def load_known(pid):
    try:
        with open(KNOWN) as f:
            data = json.load(f)
    except FileNotFoundError:
        return {}
    out = {}
    for e in data.get("findings", []):
        if e.get("property") == pid and e.get("status") == "known":
            out[e["key"]] = e
    return out


def run_shard_subprocess(mod, shard, idx, tmpdir):
    flavour = shard.get("flavour") or getattr(mod, "FLAVOUR", "plain")
    extra = {}
    if hasattr(mod, "shard_env"):
        extra = mod.shard_env(shard) or {}
    env = overlay.worker_env(flavour, extra)
    out = os.path.join(tmpdir, f"shard{idx}.json")
    log = os.path.join(tmpdir, f"shard{idx}.log")
    timeout = shard.get("timeout") or getattr(mod, "SHARD_TIMEOUT", 900)
    # shard["pyflags"]: interpreter options the shard's worker runs under (e.g. ["-bb"]: str(bytes) is an error)
    cmd = [overlay.PY, "-B"] + list(shard.get("pyflags") or os.environ.get("VERIF_PYFLAGS", "").split()) + ["-m", "vlib.worker", mod.__name__, json.dumps(shard), out]
    if hasattr(mod, "shard_cmd_prefix"):
        cmd = mod.shard_cmd_prefix(shard) + cmd
    t0 = time.time()
    try:
        with open(log, "wb") as lf:
            p = subprocess.run(cmd, cwd=VERIF, env=env, stdout=lf, stderr=subprocess.STDOUT,
                               timeout=timeout)
        rc = p.returncode
    except subprocess.TimeoutExpired:
        rc = "timeout"
    dt = time.time() - t0
    res = None
    if os.path.exists(out):
        try:
            with open(out) as f:
                res = json.load(f)
        except ValueError:
            res = None
    with open(log, "rb") as lf:
        tail = lf.read()[-12000:].decode("utf-8", "replace")
    cur = None
    if os.path.exists(out + ".cur"):
        try:
            with open(out + ".cur") as f:
                cur = json.load(f)
        except ValueError:
            cur = None
    return dict(idx=idx, shard=shard, rc=rc, res=res, log=tail, wall=dt, cur=cur)


def main(argv=None):
    ap = argparse.ArgumentParser()
    ap.add_argument("check")
    ap.add_argument("--tier", default=os.environ.get("VERIF_TIER", "quick"))
    ap.add_argument("--seed", type=int, default=int(os.environ.get("VERIF_SEED", "0")))
    ap.add_argument("--replay")
    ap.add_argument("--jobs", type=int, default=NCPU)
    ap.add_argument("--no-evidence", action="store_true")
    args = ap.parse_args(argv)
    tier = args.tier if args.tier in ("quick", "thorough") else "quick"
    pid = args.check.upper()
    mod = importlib.import_module(f"checks.{pid.lower()}")
    t0 = time.time()

    # always (re)build from /repo's current working tree
    flavours = set(getattr(mod, "FLAVOURS", [getattr(mod, "FLAVOUR", "plain")]))
    for fl in flavours:
        overlay.ensure(fl)

    if args.replay:
        with open(args.replay) as f:
            rp = json.load(f)
        shards = [rp["shard"]]
    else:
        shards = mod.plan(tier, args.seed)

    results = []
    with tempfile.TemporaryDirectory(prefix=f"verif_{pid}_", dir=overlay.BUILD) as tmpdir:
        with concurrent.futures.ThreadPoolExecutor(max_workers=args.jobs) as ex:
            futs = [ex.submit(run_shard_subprocess, mod, s, i, tmpdir) for i, s in enumerate(shards)]
            for fu in concurrent.futures.as_completed(futs):
                results.append(fu.result())
    results.sort(key=lambda r: r["idx"])

    evals = 0
    nontrivial = set()
    counters = collections.Counter()
    samples = []
    violations = []          # (mech, detail, case, shard)
    viol_counts = collections.Counter()
    inconclusive = []
    exhaustive_flags = []
    extra_cov = {}
    for r in results:
        res = r["res"]
        if res is None or r["rc"] != 0:
            handled = False
            if hasattr(mod, "on_worker_death"):
                # e.g. sanitizer abort: the check decides whether it is a violation
                v = mod.on_worker_death(r)
                if v:
                    for mech, detail, case in v:
                        violations.append((mech, detail, case, r["shard"]))
                        viol_counts[mech] += 1
                    handled = True
            if not handled and res is None:
                inconclusive.append(f"shard {r['idx']} ({r['shard'].get('kind')}) died rc={r['rc']}: "
                                    + r["log"][-800:].replace("\n", " | "))
            if res is None:
                continue
        evals += res.get("evals", 0)
        nontrivial.update(res.get("nontrivial", []))
        counters.update(res.get("counters", {}))
        for s in res.get("samples", []):
            if len(samples) < 12:
                samples.append(s)
        for v in res.get("violations", []):
            violations.append((v["mech"], v["detail"], v.get("case"), v.get("shard") or r["shard"]))
        for k, n in res.get("viol_counts", {}).items():
            viol_counts[k] += n
        if res.get("inconclusive"):
            inconclusive.append(f"shard {r['idx']}: {res['inconclusive']}")
        if "exhaustive" in res:
            exhaustive_flags.append(bool(res["exhaustive"]))
        for k, v in res.get("extra", {}).items():
            extra_cov.setdefault(k, v)

    for name in getattr(mod, "REQUIRED_COUNTERS", []):
        if not args.replay and counters.get(name, 0) <= 0:
            inconclusive.append(f"deciding monitor counter '{name}' is zero")
    if hasattr(mod, "finalize") and not args.replay:
        fin = mod.finalize(dict(evals=evals, counters=counters, tier=tier, nontrivial=len(nontrivial))) or {}
        inconclusive.extend(fin.get("inconclusive", []))
        extra_cov.update(fin.get("extra", {}))

    known = load_known(pid)
    known_seen = collections.OrderedDict()
    new_viol = collections.OrderedDict()
    for mech, detail, case, shard in violations:
        if mech in known:
            known_seen.setdefault(mech, (detail, case))
        else:
            new_viol.setdefault(mech, (detail, case, shard))

    for mech, (detail, case) in known_seen.items():
        print(f"KNOWN-FINDING: property={pid} {mech}: {known[mech].get('what', '')} "
              f"[seen {viol_counts.get(mech, 1)}x this run; e.g. {detail[:200]}]")

    rc = 0
    os.makedirs(os.path.join(VERIF, "replays", pid), exist_ok=True)
    for mech, (detail, case, shard) in new_viol.items():
        h = hashlib.sha1(json.dumps([mech, case], sort_keys=True, default=str).encode()).hexdigest()[:10]
        path = os.path.join(VERIF, "replays", pid, f"{mech}-{h}.json")
        rshard = dict(shard or {})
        if case is not None:
            rshard = dict(kind="cases", cases=[case], flavour=(shard or {}).get("flavour"),
                          origin=(shard or {}).get("kind"))
            for k in ("variant", "hashseed", "env", "pyflags", "bits"):
                if shard and k in shard:
                    rshard[k] = shard[k]
        with open(path, "w") as f:
            json.dump(dict(property=pid, mech=mech, detail=detail, shard=rshard), f, indent=1, default=str)
        print(f"VIOLATION property={pid} replay={path}")
        print(f"  mechanism={mech} count={viol_counts.get(mech, 1)} detail={detail[:600]}")
        rc = 1
    if inconclusive:
        # printed even next to a violation (a dead shard must not hide behind it); exit code: violation wins
        for why in inconclusive[:5]:
            print(f"INCONCLUSIVE property={pid} reason={why[:1000]}")
        if rc == 0:
            rc = 2

    wall = time.time() - t0
    if not args.no_evidence and not args.replay:
        cov = dict(
            evaluations=evals,
            distinct_nontrivial=len(nontrivial),
            rule=getattr(mod, "RULE", ""),
            samples=samples,
            monitor_counters=dict(sorted(counters.items())),
            shards=len(shards),
            known_findings_seen=sorted(known_seen),
            inconclusive=inconclusive[:10],
        )
        if exhaustive_flags:
            cov["exhaustive"] = all(exhaustive_flags)
        cov.update(extra_cov)
        ev = dict(property_id=pid, tier=tier, seed=args.seed, level=mod.LEVEL, coverage=cov,
                  assumptions=list(getattr(mod, "ASSUMPTIONS", [])), wall_s=round(wall, 2),
                  violations=len(new_viol))
        os.makedirs(os.path.join(VERIF, "evidence"), exist_ok=True)
        with open(os.path.join(VERIF, "evidence", f"{pid}.json"), "w") as f:
            json.dump(ev, f, indent=1, default=str)
    verdict = {0: "HELD", 1: "VIOLATED", 2: "INCONCLUSIVE"}[rc]
    print(f"{pid} {verdict} tier={tier} seed={args.seed} evaluations={evals} "
          f"distinct_nontrivial={len(nontrivial)} known={len(known_seen)} wall={wall:.1f}s")
    slow = sorted(results, key=lambda r: -r["wall"])[:3]
    print("  slowest shards: " + "; ".join(f"{r['shard'].get('kind')}#{r['idx']}={r['wall']:.1f}s" for r in slow))
    top = ", ".join(f"{k}={v}" for k, v in sorted(counters.items())[:14])
    if top:
        print(f"  counters: {top}")
    return rc


if __name__ == "__main__":
    sys.exit(main())
