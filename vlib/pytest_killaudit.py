"""pytest plugin (loaded with -p): audit every os.kill()/os.killpg() made while the upstream tests run and log
those that come from psutil's own code (not from the tests) - C01's 'no psutil call ever signals pid <= 0'."""
import json
import os
import sys

LOG = os.environ.get("VERIF_AUDIT_LOG")
counts = {"kill_events": 0, "from_psutil": 0, "nonpositive_from_psutil": 0}


def _hook(event, args):
    if event not in ("os.kill", "os.killpg"):
        return
    counts["kill_events"] += 1
    f = sys._getframe(1)
    fn = f.f_code.co_filename
    from_psutil = "/psutil/" in fn and "/psutil/tests/" not in fn
    if from_psutil:
        counts["from_psutil"] += 1
        pid = args[0]
        if event == "os.killpg" or pid <= 0:
            counts["nonpositive_from_psutil"] += 1
            if LOG:
                with open(LOG, "a") as fh:
                    fh.write(json.dumps(dict(event=event, args=[int(a) for a in args], file=fn, line=f.f_lineno)) + "\n")


sys.addaudithook(_hook)


def pytest_sessionfinish(session, exitstatus):
    if LOG:
        with open(LOG + ".counts", "w") as fh:
            json.dump(counts, fh)
