"""Worker entry point: run one shard of one check inside a fresh interpreter (overlay on sys.path)."""
import faulthandler
import importlib
import json
import os
import sys


def main():
    modname, shard_json, out = sys.argv[1], sys.argv[2], sys.argv[3]
    faulthandler.enable()
    shard = json.loads(shard_json)
    os.environ["VERIF_CUR_FILE"] = out + ".cur"
    mod = importlib.import_module(modname)
    res = mod.run_shard(shard)
    tmp = out + ".tmp"
    with open(tmp, "w") as f:
        json.dump(res, f, default=str)
    os.replace(tmp, out)


if __name__ == "__main__":
    main()
