"""Shared ProcTable fixtures: a fully populated live process, its relatives, a zombie."""
import os

from .proctable import ProcTable, Thread

FX_DIR = os.path.join(os.path.dirname(os.path.dirname(os.path.abspath(__file__))), ".build", "fx")

MEMINFO = b"""MemTotal:       16000000 kB
MemFree:         8000000 kB
MemAvailable:   12000000 kB
Buffers:          100000 kB
Cached:          2000000 kB
SwapCached:            0 kB
Active:          3000000 kB
Inactive:        1000000 kB
Active(file):     500000 kB
Inactive(file):   400000 kB
SwapTotal:       1000000 kB
SwapFree:         900000 kB
Shmem:             50000 kB
Slab:             300000 kB
SReclaimable:     200000 kB
"""

SMAPS = b"""55c69524c000-55c69524e000 r--p 00000000 fe:00 320173                     /usr/bin/worker
Size:                  8 kB
KernelPageSize:        4 kB
MMUPageSize:           4 kB
Rss:                   8 kB
Pss:                   6 kB
Pss_Dirty:             0 kB
Shared_Clean:          4 kB
Shared_Dirty:          0 kB
Private_Clean:         4 kB
Private_Dirty:         0 kB
Referenced:            8 kB
Anonymous:             0 kB
Swap:                  0 kB
SwapPss:               0 kB
Locked:                0 kB
THPeligible:           0
VmFlags: rd mr mw me
7ffdcb7fa000-7ffdcb81b000 rw-p 00000000 00:00 0                          [stack]
Size:                132 kB
KernelPageSize:        4 kB
MMUPageSize:           4 kB
Rss:                  20 kB
Pss:                  20 kB
Pss_Dirty:            20 kB
Shared_Clean:          0 kB
Shared_Dirty:          0 kB
Private_Clean:         0 kB
Private_Dirty:        20 kB
Referenced:           20 kB
Anonymous:            20 kB
Swap:                  4 kB
SwapPss:               4 kB
Locked:                0 kB
THPeligible:           0
VmFlags: rd wr mr mw me gd ac
"""

# a mapped file that was unlinked since: psutil stats the literal name to decide whether " (deleted)" is part of it
SMAPS_DELETED_MAPPING = b"""7f10a0000000-7f10a0002000 r--p 00000000 fe:00 320999                     /vmapped/libgone.so (deleted)
Size:                  8 kB
Rss:                   4 kB
Pss:                   4 kB
Shared_Clean:          0 kB
Shared_Dirty:          0 kB
Private_Clean:         4 kB
Private_Dirty:         0 kB
Referenced:            4 kB
Anonymous:             0 kB
Swap:                  0 kB
"""

SMAPS_ROLLUP = b"""55c69524c000-7ffdcb81b000 ---p 00000000 00:00 0                          [rollup]
Rss:                  28 kB
Pss:                  26 kB
Pss_Dirty:            20 kB
Pss_Anon:             20 kB
Pss_File:              6 kB
Pss_Shmem:             0 kB
Shared_Clean:          4 kB
Shared_Dirty:          0 kB
Private_Clean:         4 kB
Private_Dirty:        20 kB
Referenced:           28 kB
Anonymous:            20 kB
Swap:                  4 kB
SwapPss:               4 kB
Locked:                0 kB
"""

NET_TCP = b"""  sl  local_address rem_address   st tx_queue rx_queue tr tm->when retrnsmt   uid  timeout inode
   0: 0100007F:1F90 00000000:0000 0A 00000000:00000000 00:00000000 00000000     0        0 5001 1 0000000000000000 100 0 0 10 0
   1: 0100007F:1F91 0100007F:C350 01 00000000:00000000 00:00000000 00000000     0        0 7001 1 0000000000000000 100 0 0 10 0
"""
NET_HDR_INET = b"  sl  local_address rem_address   st tx_queue rx_queue tr tm->when retrnsmt   uid  timeout inode\n"
NET_UNIX = b"""Num       RefCount Protocol Flags    Type St Inode Path
0000000000000000: 00000002 00000000 00010000 0001 01 5002 /run/fx.sock
0000000000000000: 00000002 00000000 00000000 0002 01 7002
"""


def fx_files():
    os.makedirs(FX_DIR, exist_ok=True)
    out = {}
    for name in ("reg_a.txt", "reg_b.log"):
        p = os.path.join(FX_DIR, name)
        if not os.path.exists(p):
            with open(p, "w") as f:
                f.write("x" * 10)
        out[name] = p
    return out


def rich_table(zombie=False, btime=1_700_000_000, kthread=False):
    """-> (table, pid) : pid 50 fully populated, parent 40, children 60/61, sibling 55."""
    files = fx_files()
    t = ProcTable(btime=btime, ncpu=4, self_pid=2)
    t.spawn(1, 5, ppid=0, comm=b"init")
    t.spawn(2, 100, ppid=1, comm=b"harness")
    t.spawn(40, 300, ppid=1, comm=b"par ent")
    p = t.spawn(50, 500, ppid=40, comm=b"wk (a) b")      # spaces and parentheses, as "tmux: server" / "(sd-pam)" have
    p.threads = [Thread(50, b"wk (a) b", 30, 40), Thread(51, b"wk-io", 1, 2), Thread(52, b"wk) r", 3, 4)]
    p.utime, p.stime, p.cutime, p.cstime, p.blkio = 34, 46, 7, 8, 9
    p.cmdline = b"/usr/bin/worker\0--flag\0\0"
    p.environ = b"HOME=/root\0PATH=/bin\0"
    p.exe = "/usr/bin/worker"
    p.cwd = "/tmp"
    p.vctx, p.nvctx = 12, 3
    p.nice = 2
    p.ioprio = (2, 4)
    p.affinity = [0, 1, 2]
    p.rlimits = {7: (1024, 4096)}
    p.smaps = SMAPS + SMAPS_DELETED_MAPPING
    p.smaps_rollup = SMAPS_ROLLUP
    p.fds = {
        0: dict(target="/dev/null", pos=0, flags=0o100002),
        1: dict(target="pipe:[111]", pos=0, flags=0o1),
        2: dict(target=files["reg_a.txt"], pos=5, flags=0o100000),
        3: dict(target="socket:[5001]", pos=0, flags=0o2),
        4: dict(target="socket:[5002]", pos=0, flags=0o2),
        5: dict(target="anon_inode:[eventpoll]", pos=0, flags=0o2),
        6: dict(target=files["reg_b.log"], pos=10, flags=0o102001),
    }
    t.spawn(55, 520, ppid=40, comm=b"sibling")
    t.spawn(60, 700, ppid=50, comm=b"ch) R 1 (a")
    t.spawn(61, 710, ppid=50, comm=b"child-b")
    t.spawn(70, 800, ppid=60, comm=b"grandchild")
    t.rootfiles.update({
        "meminfo": MEMINFO,
        "net/tcp": NET_TCP, "net/tcp6": NET_HDR_INET, "net/udp": NET_HDR_INET, "net/udp6": NET_HDR_INET,
        "net/unix": NET_UNIX,
        "uptime": b"1000.00 4000.00\n",
    })
    if kthread:
        # what a kernel thread looks like: no executable, empty command line, no mappings, roll-up refused with ESRCH
        import errno as _errno
        p.exe = None
        p.cmdline = b""
        p.environ = b""
        p.no_mm = True              # open("/proc/PID/environ") -> ESRCH, as this sandbox's kernel answers for PID 2
        p.smaps = b""
        p.smaps_rollup = _errno.ESRCH
        p.fds = {}
        p.statm = (0, 0, 0, 0, 0, 0, 0)
        p.threads = None
        p.comm = b"kworker/0:1-eve"
    if zombie:
        t.exit(50, 0)
    return t, 50
